"""Shared plumbing: PRNG streams, the seams the scheduler owns, the event log, world reset.

Nothing in here draws from a PRNG or reads a clock on a logging path.
"""
import hashlib
import json
import os
import random
import sys

STREAMS = ('gen', 'inputs', 'sched', 'faults', 'hash', 'iter', 'shrink', 'aux')

PY = '/venv/bin/python'
VERIF_DIR = os.path.dirname(os.path.dirname(os.path.abspath(__file__)))
REPO_DIR = os.environ.get('VERIF_REPO', '/repo')


class HarnessError(Exception):
    """The machinery itself is wrong (never a VIOLATION)."""


class ForeignMismatch(Exception):
    """The small foreign design that is built and simulated between the events of a world
    computed a wrong value: PyRTL misbehaved (reported as a violation of the property whose
    world it happened in)."""


class RomUndefined(Exception):
    """A ROM of a live (transformed / copied) block has no word where the design it was
    derived from has one: the transformation lost ROM contents or its padding flag."""


class PlantedAssertion(Exception):
    """The exception object handed to pyrtl.rtl_assert by the harness (fault
    'assertion_fired_and_caught': the caller catches it and keeps stepping)."""


class RomHole(Exception):
    """The reference model read a ROM address for which the design's romdata defines no word
    (pad_with_zeros=False): PyRTL rejects such a step with PyrtlError; it is not a cycle."""


class Inconclusive(Exception):
    """The run left the domain in which the oracle can judge (e.g. a simulator accepted a step
    that lacked an input value, so what it simulated is unknown). Not a violation, not a
    harness error: the run ends unjudged and is counted under the probe 'inconclusive'."""


class ReplicaViolation(Exception):
    """Carries a Violation out of Replica.advance."""

    def __init__(self, violation):
        Exception.__init__(self, violation.cls)
        self.violation = violation


class RunTimeout(Exception):
    """Raised by the SIGALRM handler (lives here, not in worker.py, because `python -m
    verifsim.worker` loads worker.py as __main__ and a second import would define a second,
    different exception class)."""


def alarm_handler(signum, frame):
    raise RunTimeout()


class Streams(object):
    """One integer decides everything: named sub-streams split from one master PRNG in a
    fixed order, so that a new draw in one stream never shifts another."""

    def __init__(self, run_seed):
        self.run_seed = run_seed
        master = random.Random(run_seed)
        self._sub = {}
        for name in STREAMS:
            self._sub[name] = random.Random(master.getrandbits(64))

    def __getitem__(self, name):
        return self._sub[name]

    def subseed(self, name):
        return self._sub[name].getrandbits(48)


def run_seed_of(verif_seed, i):
    return verif_seed * (1 << 20) + i


# ---------------------------------------------------------------------------------------
# hash seam: WireVector/MemBlock identity hashes are replaced by scheduler-chosen values
# ---------------------------------------------------------------------------------------

class _HashSeam(object):
    def __init__(self):
        self.rng = None
        self.used = set()
        self.installed = False
        self.assigned = 0

    def hash_of(self, obj):
        d = obj.__dict__
        h = d.get('_vh')
        if h is None:
            if self.rng is None:
                h = id(obj)
            else:
                while True:
                    h = self.rng.getrandbits(61)
                    if h not in self.used:
                        break
                self.used.add(h)
                self.assigned += 1
            d['_vh'] = h
        return h


_seam = _HashSeam()


def _seeded_hash(self):
    return _seam.hash_of(self)


def install_hash_seam(hash_seed):
    """Every WireVector/MemBlock first hashed from now on gets a value drawn from
    Random(hash_seed); distinctness is enforced (a collision would make Python call
    WireVector.__eq__, which builds hardware)."""
    import pyrtl
    from pyrtl import wire, memory
    _seam.rng = random.Random(hash_seed) if hash_seed is not None else None
    _seam.used = set()
    _seam.assigned = 0
    if not _seam.installed:
        wire.WireVector.__hash__ = _seeded_hash
        memory.MemBlock.__hash__ = _seeded_hash
        _seam.installed = True


def uninstall_hash_seam():
    from pyrtl import wire, memory
    if _seam.installed:
        wire.WireVector.__hash__ = lambda self: id(self)
        memory.MemBlock.__hash__ = object.__hash__
        _seam.installed = False
    _seam.rng = None


# ---------------------------------------------------------------------------------------
# iteration seam (the guarded hook in pyrtl/core.py)
# ---------------------------------------------------------------------------------------

class ChoiceSet(object):
    """Stands in for the ready-set of Block.__iter__: pop() is the scheduler's decision."""

    def __init__(self, initial, owner):
        self.items = []
        self.ids = set()
        self.owner = owner
        # the initial content arrives in (seeded) set order; sort by name for a canonical
        # base order so that the policy alone decides
        for w in sorted(initial, key=lambda w: w.name):
            self._add(w)

    def _add(self, w):
        if id(w) not in self.ids:
            self.ids.add(id(w))
            self.items.append(w)

    def __len__(self):
        return len(self.items)

    def update(self, ws):
        for w in ws:
            self._add(w)

    def pop(self):
        o = self.owner
        n = len(self.items)
        if o.policy == 'lifo':
            i = n - 1
        elif o.policy == 'fifo':
            i = 0
        else:
            i = o.rng.randrange(n)
        o.choices += 1
        o.order_digest.update(self.items[i].name.encode() + b'\0')
        w = self.items.pop(i)
        self.ids.discard(id(w))
        return w


class IterSeam(object):
    """policy in {None (hook off: seeded hash order decides), 'lifo', 'fifo', 'random'}."""

    def __init__(self):
        self.policy = None
        self.rng = None
        self.choices = 0
        self.order_digest = hashlib.sha1()

    def install(self, policy, seed):
        from pyrtl import core
        self.policy = policy
        self.rng = random.Random(seed)
        self.choices = 0
        self.order_digest = hashlib.sha1()
        if policy is None:
            core._verif_set_iter_hook(None)
        else:
            core._verif_set_iter_hook(lambda s: ChoiceSet(s, self))

    def uninstall(self):
        from pyrtl import core
        core._verif_set_iter_hook(None)
        self.policy = None


iter_seam = IterSeam()


# ---------------------------------------------------------------------------------------
# world reset
# ---------------------------------------------------------------------------------------

def reset_world():
    """Bring every process-global of PyRTL back to its import-time state."""
    import pyrtl
    from pyrtl import wire, memory, conditional, helperfuncs, core
    pyrtl.reset_working_block()
    wire._reset_wire_indexers()
    memory._reset_memory_indexer()
    conditional._reset_conditional_state()
    if hasattr(pyrtl.conditional_assignment, 'defaults'):
        pyrtl.conditional_assignment.defaults = {}
    helperfuncs.probeIndexer = core._NameIndexer('Probe-')
    helperfuncs.assertIndexer = core._NameIndexer('assertion')
    core._verif_set_iter_hook(None)
    pyrtl.set_debug_mode(False)


# ---------------------------------------------------------------------------------------
# event log
# ---------------------------------------------------------------------------------------

def jdigest(obj):
    return hashlib.sha1(json.dumps(obj, sort_keys=True, default=str).encode()).hexdigest()[:12]


class EventLog(object):
    def __init__(self, keep=False):
        self.n = 0
        self.h = hashlib.sha1()
        self.keep = keep
        self.events = []

    def log(self, actor, op, arg=None, res=None):
        rec = (self.n, actor, op, arg, res)
        self.n += 1
        self.h.update(repr(rec).encode())
        if self.keep:
            self.events.append(rec)

    def digest(self):
        return self.h.hexdigest()[:16]


class Counters(dict):
    def hit(self, k, n=1):
        self[k] = self.get(k, 0) + n


class Violation(object):
    def __init__(self, oracle, cls, detail=None, tags=()):
        self.oracle = oracle
        self.cls = cls
        self.detail = detail or {}
        self.tags = sorted(set(tags))

    def to_json(self):
        return {'oracle': self.oracle, 'class': self.cls, 'detail': self.detail,
                'tags': self.tags}

    def key(self):
        return (self.oracle, self.cls)


class RunResult(object):
    """What one simulated world reports."""

    def __init__(self):
        self.violation = None      # first Violation or None
        self.log = EventLog()
        self.probes = Counters()
        self.faults = Counters()
        self.cycles = 0
        self.shape = ''            # design-shape digest
        self.sched = ''            # schedule digest
        self.nontrivial = False
        self.stateless = 0

    def to_json(self):
        return {
            'v': self.violation.to_json() if self.violation else None,
            'digest': self.log.digest(), 'events': self.log.n,
            'probes': dict(self.probes), 'faults': dict(self.faults),
            'cycles': self.cycles, 'shape': self.shape, 'sched': self.sched,
            'nontrivial': self.nontrivial, 'stateless': self.stateless,
        }


def mask(w):
    return (1 << w) - 1


def eprint(*a):
    print(*a, file=sys.stderr)
    sys.stderr.flush()
