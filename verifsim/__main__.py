"""Entry point: ./check run <ID> [--tier quick|thorough] | replay <file> | selftest ..."""
import concurrent.futures
import importlib
import json
import os
import subprocess
import sys
import time

from . import common, findings
from .common import PY, VERIF_DIR, REPO_DIR, eprint

NPROC = int(os.environ.get('VERIF_NPROC', '16'))


def worker_env(pyhashseed):
    env = dict(os.environ)
    env['PYTHONHASHSEED'] = str(pyhashseed)
    env['PYRTL_VERIF'] = '1'
    env['PYTHONPATH'] = REPO_DIR + ':' + VERIF_DIR
    env['PYTHONDONTWRITEBYTECODE'] = '1'
    return env


def run_worker(pid, tier, seed, pyhashseed, start, stride, total, budget, selfcheck_n, wall):
    cmd = [PY, '-m', 'verifsim.worker', pid, tier, str(seed), str(start), str(stride),
           str(total), str(budget), str(selfcheck_n)]
    try:
        p = subprocess.run(cmd, env=worker_env(pyhashseed), cwd=VERIF_DIR, timeout=wall,
                           stdout=subprocess.PIPE, stderr=subprocess.PIPE)
    except subprocess.TimeoutExpired as e:
        return {'rc': 'timeout', 'lines': [], 'stderr': (e.stderr or b'').decode()[-2000:],
                'cmd': cmd, 'pyhashseed': pyhashseed}
    lines = []
    for ln in p.stdout.decode().splitlines():
        ln = ln.strip()
        if ln.startswith('{'):
            try:
                lines.append(json.loads(ln))
            except ValueError:
                pass
    return {'rc': p.returncode, 'lines': lines, 'stderr': p.stderr.decode()[-3000:],
            'cmd': cmd, 'pyhashseed': pyhashseed}


def do_run(pid, tier, seed):
    t0 = time.time()
    prop = importlib.import_module('verifsim.props.' + pid.lower())
    cfg = prop.TIERS[tier]
    total = int(os.environ.get('VERIF_RUNS', cfg['runs']))
    rdir = os.environ.get('VERIF_REPLAY_DIR') or os.path.join(VERIF_DIR, 'replays')
    if os.path.isdir(rdir):
        for fn in os.listdir(rdir):
            if fn.startswith(pid + '-'):
                os.unlink(os.path.join(rdir, fn))
    P = cfg['classes']
    S = max(1, -(-NPROC // P))
    budget = float(os.environ.get('VERIF_BUDGET_S', cfg['budget_s']))
    selfcheck_n = cfg.get('selfcheck', 2 * P if tier == 'quick' else P)
    jobs = []
    for k in range(P):
        for s in range(S):
            jobs.append(('main', k, k + P * s, P * S, total))
    for k in range(P):
        if k < selfcheck_n:
            jobs.append(('self', k, k, P, selfcheck_n))
    results = []
    with concurrent.futures.ThreadPoolExecutor(NPROC) as ex:
        futs = []
        for kind, k, start, stride, tot in jobs:
            b = budget if kind == 'main' else max(60.0, budget / 4)
            futs.append((kind, ex.submit(run_worker, pid, tier, seed, k, start, stride, tot, b,
                                         selfcheck_n if kind == 'main' else tot,
                                         b + cfg.get('grace_s', 180))))
        for kind, f in futs:
            r = f.result()
            r['kind'] = kind
            results.append(r)
    # ---- aggregate ------------------------------------------------------------------
    harness_errors = []
    violations = []
    digests = {'main': {}, 'self': {}}
    agg = {'runs': 0, 'nontrivial': 0, 'cycles': 0, 'probes': {}, 'faults': {}, 'stateless': 0,
           'known_hits': {}, 'stopped_early': 0, 'scheds': 0}
    distinct = set()
    samples = []
    for r in results:
        if r['rc'] != 0:
            harness_errors.append('worker rc=%s pyhashseed=%s stderr=%s'
                                  % (r['rc'], r['pyhashseed'], r['stderr'][-800:]))
        got_summary = False
        for ln in r['lines']:
            t = ln.get('t')
            if t == 'digest':
                digests[r['kind']][ln['i']] = ln['digest']
            elif t == 'harness_error':
                harness_errors.append('run i=%s seed=%s: %s' % (ln['i'], ln['run_seed'], ln['exc']))
            elif t == 'violation':
                ln['pyhashseed'] = r['pyhashseed']
                if r['kind'] == 'main':
                    violations.append(ln)
            elif t == 'summary':
                got_summary = True
                if r['kind'] != 'main':
                    continue
                for k in ('runs', 'nontrivial', 'cycles', 'stateless'):
                    agg[k] += ln[k]
                agg['scheds'] += ln['scheds']
                agg['stopped_early'] += 1 if ln['stopped_early'] else 0
                for k, v in ln['probes'].items():
                    agg['probes'][k] = agg['probes'].get(k, 0) + v
                for k, v in ln['faults'].items():
                    agg['faults'][k] = agg['faults'].get(k, 0) + v
                for k, v in ln['known_hits'].items():
                    agg['known_hits'][k] = agg['known_hits'].get(k, 0) + v
                distinct.update(ln['distinct'])
                samples.extend(ln['samples'])
        if not got_summary and r['rc'] == 0:
            harness_errors.append('worker produced no summary')
    mism = [i for i, d in digests['self'].items() if digests['main'].get(i) not in (None, d)]
    checked = len([i for i in digests['self'] if i in digests['main']])
    if mism:
        harness_errors.append('determinism self-check failed for run indices %s' % sorted(mism))
    wall = time.time() - t0
    known = findings.load()
    # ---- report -----------------------------------------------------------------------
    print('%s tier=%s seed=%d runs=%d nontrivial=%d distinct=%d cycles=%d faults=%s wall=%.1fs'
          % (pid, tier, seed, agg['runs'], agg['nontrivial'], len(distinct), agg['cycles'],
             json.dumps(agg['faults'], sort_keys=True), wall))
    for fid, n in sorted(agg['known_hits'].items()):
        k = findings.by_id(known, fid)
        print('KNOWN-FINDING: property=%s %s (hit %d times; id=%s)' % (pid, k['what'], n, fid))
    seen = set()
    vio_out = []
    for v in violations:
        key = (v['oracle'], v['class'])
        if key in seen:
            continue
        seen.add(key)
        vio_out.append(v)
        print('VIOLATION property=%s replay=%s' % (pid, v['replay']))
        print('  oracle=%s class=%s tags=%s detail=%s' % (v['oracle'], v['class'], v['tags'],
                                                         json.dumps(v['detail'], default=str)[:600]))
    for h in harness_errors[:10]:
        print('HARNESS-ERROR: ' + h)
    write_evidence(prop, pid, tier, seed, agg, distinct, samples, wall, checked, len(mism),
                   len(violations), cfg, P, harness_errors)
    if vio_out:
        # a reported violation (with its replay file) stands even if the machinery also
        # complained -- e.g. code that depends on real object addresses breaks the determinism
        # self-check *because* it violates the property
        return 1
    if harness_errors:
        return 2
    if agg['runs'] == 0:
        print('HARNESS-ERROR: no runs executed')
        return 2
    return 0


def write_evidence(prop, pid, tier, seed, agg, distinct, samples, wall, checked, mism, nviol,
                   cfg, P, harness_errors):
    probes = agg['probes']
    expected = getattr(prop, 'EXPECTED_PROBES', [])
    ev = {
        'property_id': pid, 'tier': tier, 'seed': seed,
        'level': getattr(prop, 'LEVEL', 'exploration'),
        'coverage': {
            'evaluations': agg['runs'],
            'distinct_nontrivial': len(distinct),
            'rule': getattr(prop, 'RULE', 'one evaluation = one complete simulated world (build '
                            '+ all cycles + all checks) from one run seed; non-trivial = executed '
                            '>= 1 cycle/fault site; distinct = distinct (design shape, schedule '
                            'digest, fired-fault multiset, event-log digest) tuples, union over '
                            'workers'),
            'samples': samples[:3] or [{'note': 'no sample recorded'}],
            'runs_per_hour': int(agg['runs'] / max(wall, 1e-6) * 3600),
            'simulated_cycles': agg['cycles'],
            'fault_counts': agg['faults'],
            'probe_counts': probes,
            'probes_at_zero': [p for p in expected if not probes.get(p)],
            'distinct_schedule_digests_sum_over_workers': agg['scheds'],
            'pyhashseed_classes': P,
            'stateless_samples': agg['stateless'],
            'known_findings_hit': agg['known_hits'],
            'determinism_selfcheck': {'runs_compared': checked, 'mismatches': mism},
            'workers_stopped_early': agg['stopped_early'],
            'components': getattr(prop, 'COMPONENTS', {}),
            'harness_errors': len(harness_errors),
        },
        'assumptions': getattr(prop, 'ASSUMPTIONS', []),
        'wall_s': round(wall, 2),
        'violations': nviol,
    }
    d = os.environ.get('VERIF_EVIDENCE_DIR') or os.path.join(VERIF_DIR, 'evidence')
    os.makedirs(d, exist_ok=True)
    with open(os.path.join(d, pid + '.json'), 'w') as f:
        json.dump(ev, f, indent=1, sort_keys=True, default=str)


def do_replay(path):
    with open(path) as f:
        rec = json.load(f)
    phs = rec.get('pyhashseed') or '0'
    if os.environ.get('PYTHONHASHSEED') != str(phs) or os.environ.get('PYRTL_VERIF') != '1':
        env = worker_env(phs)
        p = subprocess.run([PY, '-m', 'verifsim', 'replay', path], env=env, cwd=VERIF_DIR)
        return p.returncode
    from . import worker
    prop = worker.load_prop(rec['property'])
    for k, prev in enumerate(rec.get('preceding') or []):
        # worlds the same worker process executed before the failing one (they left state
        # behind inside PyRTL that the failing world depends on)
        try:
            r0 = worker.run_case(prop, prev, getattr(prop, 'RUN_TIMEOUT_S', 30.0))
            print('  preceding world %d: %s' % (k, 'violation %s/%s' % (r0.violation.oracle, r0.violation.cls)
                                               if r0.violation else 'no violation'))
        except Exception as e:
            print('  preceding world %d: %s' % (k, type(e).__name__))
    res = worker.run_case(prop, rec['case'], getattr(prop, 'RUN_TIMEOUT_S', 30.0), keep_log=True)
    v = res.violation
    if v is None:
        print('REPLAY property=%s: no violation (recorded %s/%s)' % (rec['property'],
                                                                    rec['oracle'], rec['class']))
        return 0
    same = (v.oracle == rec['oracle'] and v.cls == rec['class'])
    print('REPLAY property=%s oracle=%s class=%s digest=%s %s' % (
        rec['property'], v.oracle, v.cls, res.log.digest(),
        'REPRODUCED' if same and res.log.digest() == rec.get('digest') else
        ('SAME-CLASS' if same else 'DIFFERENT')))
    print('  detail=%s' % json.dumps(v.detail, default=str)[:1500])
    print('VIOLATION property=%s replay=%s' % (rec['property'], path))
    return 1


def do_setup():
    code = ('import pyrtl, pyparsing, sys; '
            'assert pyrtl.__file__.startswith(%r), pyrtl.__file__; print(pyrtl.__file__)'
            % REPO_DIR)
    p = subprocess.run([PY, '-c', code], env=worker_env(0), cwd=VERIF_DIR)
    if p.returncode != 0:
        print('setup: pyrtl is not importable from %s' % REPO_DIR)
        return 2
    g = subprocess.run(['gcc', '--version'], stdout=subprocess.PIPE, stderr=subprocess.PIPE)
    if g.returncode != 0:
        print('setup: gcc not available')
        return 2
    os.makedirs(os.path.join(VERIF_DIR, 'evidence'), exist_ok=True)
    os.makedirs(os.path.join(VERIF_DIR, 'replays'), exist_ok=True)
    print('setup ok')
    return 0


def main(argv):
    if not argv:
        print(__doc__)
        return 2
    cmd = argv[0]
    if cmd == 'run':
        pid = argv[1]
        tier = os.environ.get('VERIF_TIER', 'quick')
        if '--tier' in argv:
            tier = argv[argv.index('--tier') + 1]
        seed = int(os.environ.get('VERIF_SEED', '0') or 0)
        return do_run(pid, tier, seed)
    if cmd == 'replay':
        return do_replay(argv[1])
    if cmd == 'setup':
        return do_setup()
    if cmd == 'selftest':
        from . import selftest
        return selftest.main(argv[1:])
    print('unknown command')
    return 2


if __name__ == '__main__':
    sys.exit(main(sys.argv[1:]))
