"""Delta-debugging over recorded scripts, cycles and faults (never over seeds).

A harness supplies `candidates(case)` yielding smaller cases; `minimise` keeps a candidate
only if the same (oracle, class) recurs. Script reductions keep the design well-formed by
repair (a dropped producer becomes a Const 0 of the same width; a dropped Output vanishes)
and every candidate is validated by netlist.script_problems before it is run.
"""
import copy

from .netlist import script_problems


def _cleanup(script):
    """Remove wires nothing refers to (Inputs/Consts/plain wires); keep script valid."""
    used = set()
    for n in script['nets']:
        used.update(n['a'])
        used.update(n['d'])
    script['wires'] = [w for w in script['wires'] if w['n'] in used]
    # drop memories no net refers to (re-index)
    refs = sorted({n['p'] for n in script['nets'] if n['op'] in 'm@'})
    if len(refs) != len(script['mems']):
        remap = {old: new for new, old in enumerate(refs)}
        script['mems'] = [script['mems'][i] for i in refs]
        for n in script['nets']:
            if n['op'] in 'm@':
                n['p'] = remap[n['p']]
        script['_memremap'] = remap
    return script


def drop_net(script, idx):
    """Return a copy with net idx removed and the netlist repaired, or None."""
    s = copy.deepcopy(script)
    s.pop('_memremap', None)
    net = s['nets'].pop(idx)
    wires = {w['n']: w for w in s['wires']}
    if net['op'] == 'r':
        d = net['d'][0]
        if not any(d in n['a'] for n in s['nets']):
            # nobody reads this register: it goes away entirely
            s['wires'].remove(wires[d])
            net = {'op': 'r', 'a': [], 'd': []}
    for d in net['d']:
        w = wires[d]
        if w['k'] == 'O':
            s['wires'].remove(w)
        elif w['k'] == 'R':
            # register without next: feed it from itself
            if net['a'] == [d]:
                return None
            s['nets'].append({'op': 'r', 'p': None, 'a': [d], 'd': [d]})
        else:
            w['k'] = 'C'
            w['v'] = 0
    # cascade: remove nets whose dest is a plain wire that is now unread
    changed = True
    while changed:
        changed = False
        read = set()
        for n in s['nets']:
            read.update(n['a'])
        wires = {w['n']: w for w in s['wires']}
        for n in list(s['nets']):
            if n['op'] in '@r':
                continue
            d = n['d'][0]
            if wires[d]['k'] == 'W' and d not in read:
                s['nets'].remove(n)
                s['wires'].remove(wires[d])
                changed = True
    _cleanup(s)
    if not any(w['k'] == 'O' for w in s['wires']):
        return None
    return s


def script_candidates(script):
    n = len(script['nets'])
    # drop outputs / sinks first (they cascade), then everything else
    order = sorted(range(n), key=lambda i: (0 if script['nets'][i]['op'] in 'w@' else 1, -i))
    for i in order:
        s = drop_net(script, i)
        if s is not None and not script_problems(s):
            yield s
    # registers lose their reset value
    for wi, w in enumerate(script['wires']):
        if w['k'] == 'R' and w.get('rv') not in (None, 0):
            s = copy.deepcopy(script)
            s['wires'][wi]['rv'] = None
            yield s
        if w['k'] == 'C' and w['v'] not in (0, 1):
            for v in (0, 1, (1 << w['w']) - 1):
                if v != w['v']:
                    s = copy.deepcopy(script)
                    s['wires'][wi]['v'] = v
                    yield s
                    break


def remap_init(init, script):
    """After a script reduction: drop initial state of vanished registers/memories."""
    out = {'regs': {}, 'mems': {}, 'default': init.get('default', 0)}
    regs = {w['n'] for w in script['wires'] if w['k'] == 'R'}
    for k, v in init.get('regs', {}).items():
        if k in regs:
            out['regs'][k] = v
    remap = script.get('_memremap')
    for k, v in init.get('mems', {}).items():
        i = int(k)
        if remap is not None:
            if i not in remap:
                continue
            i = remap[i]
        if i < len(script['mems']) and not script['mems'][i].get('rom'):
            out['mems'][str(i)] = v
    return out


def remap_cycles(cycles, script):
    ins = {w['n'] for w in script['wires'] if w['k'] == 'I'}
    return [{k: v for k, v in c.items() if k in ins} for c in cycles]


def simplify_values(cycles):
    """Yield tapes with one value simplified to 0 / 1."""
    for ci, c in enumerate(cycles):
        for k, v in c.items():
            for nv in (0, 1):
                if v != nv and v > 1:
                    t = copy.deepcopy(cycles)
                    t[ci][k] = nv
                    yield t
                    break


def minimise(case, runner, candidates, budget=300):
    """runner(case) -> (oracle, class) or None. Greedy first-improvement descent."""
    target = runner(case)
    if target is None:
        return case, 0
    used = 0
    improved = True
    while improved and used < budget:
        improved = False
        for cand in candidates(case):
            if used >= budget:
                break
            used += 1
            try:
                got = runner(cand)
            except Exception:
                got = None
            if got == target:
                case = cand
                improved = True
                break
    return case, used


def drop_cycle_variants(case, key='cycles'):
    """Cases with one (non-last) cycle removed; faults keep pointing at the same cycles."""
    import copy as _c
    cyc = case[key]
    for i in range(len(cyc) - 1):
        c = _c.deepcopy(case)
        del c[key][i]
        fs = []
        for f in c.get('faults', []):
            if f.get('at') is None or f['at'] < i:
                fs.append(f)
            elif f['at'] > i:
                fs.append(dict(f, at=f['at'] - 1))
        if 'faults' in c:
            c['faults'] = fs
        yield c
