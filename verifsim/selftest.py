"""Self-tests of the machinery.

  ./check selftest determinism [<ID> ...] [--n N]
      every run index 0..N-1 is executed twice, in two fresh interpreters per PYTHONHASHSEED
      class, under two different shardings (few and many workers); event-log digests must be
      identical. A mismatch is a harness error (exit 2), never a violation.

  ./check selftest sensitivity [<ID> ...] [--runs R]
      each mutation in mutants.json (a one-line change that breaks the property) is applied
      to a scratch copy of /repo under /dev/shm (created and removed here); the matching
      check, run with VERIF_REPO pointing at the copy, must report a VIOLATION (exit 1).
"""
import concurrent.futures
import importlib
import json
import os
import shutil
import subprocess
import sys
import tempfile

from .common import PY, VERIF_DIR, REPO_DIR
from . import __main__ as master

ALL = ['C01', 'C02', 'C03', 'C04', 'C05', 'C07', 'C08', 'C09', 'C10', 'C11', 'C12', 'C13',
       'C15', 'C17', 'C18', 'C20']


def _digests(pid, n, P, S, shift=0):
    jobs = []
    for k in range(P):
        for s in range(S):
            jobs.append(((k + shift) % 64, k + P * s, P * S))
    out = {}
    errs = []
    with concurrent.futures.ThreadPoolExecutor(16) as ex:
        futs = [ex.submit(master.run_worker, pid, 'quick', 0, k, start, stride, n, 600, n, 900)
                for k, start, stride in jobs]
        for f in futs:
            r = f.result()
            if r['rc'] != 0:
                errs.append(r['stderr'][-300:])
            for ln in r['lines']:
                if ln.get('t') == 'digest':
                    out[ln['i']] = ln['digest']
                elif ln.get('t') == 'harness_error':
                    errs.append(ln['exc'][-300:])
    return out, errs


def determinism(pids, n):
    bad = 0
    for pid in pids:
        try:
            importlib.import_module('verifsim.props.' + pid.lower())
        except ImportError:
            print('%s: no harness' % pid)
            continue
        a, ea = _digests(pid, n, 8, 1)
        b, eb = _digests(pid, n, 8, 4)
        mism = sorted(i for i in a if b.get(i) != a[i])
        missing = sorted(set(range(n)) - set(a))
        c, _ec = _digests(pid, min(n, 64), 8, 1, shift=3)
        other = sorted(i for i in c if a.get(i) != c[i])
        print('%s determinism: %d runs compared across two shardings (8 and 32 workers), '
              '%d mismatches%s; under a different PYTHONHASHSEED %d of %d digests differ '
              '(informational: the class is part of the recorded schedule)'
              % (pid, len(a), len(mism),
                 (' errors: %s' % (ea + eb)[:2]) if (ea or eb) else '', len(other), len(c)))
        if mism or ea or eb or missing:
            print('  mismatching indices: %s missing: %s' % (mism[:10], missing[:10]))
            bad += 1
    return 2 if bad else 0


def sensitivity(pids, runs):
    with open(os.path.join(VERIF_DIR, 'mutants.json')) as f:
        mutants = json.load(f)['mutants']
    results = []
    scratch_root = tempfile.mkdtemp(prefix='verif_mut_', dir='/dev/shm' if os.path.isdir('/dev/shm') else None)
    try:
        for m in mutants:
            if pids and m['prop'] not in pids:
                continue
            dst = os.path.join(scratch_root, 'repo')
            if os.path.exists(dst):
                shutil.rmtree(dst)
            shutil.copytree(os.path.join(REPO_DIR, 'pyrtl'), os.path.join(dst, 'pyrtl'))
            path = os.path.join(dst, m['file'])
            src = open(path).read()
            if src.count(m['old']) != 1:
                results.append((m, 'STALE (pattern occurs %d times)' % src.count(m['old'])))
                continue
            open(path, 'w').write(src.replace(m['old'], m['new']))
            env = dict(os.environ)
            env['VERIF_REPO'] = dst
            env['VERIF_RUNS'] = str(m.get('runs', runs))
            env['VERIF_EVIDENCE_DIR'] = os.path.join(scratch_root, 'evidence')
            env['VERIF_REPLAY_DIR'] = os.path.join(scratch_root, 'replays')
            p = subprocess.run([os.path.join(VERIF_DIR, 'check'), 'run', m['prop']], env=env,
                               cwd=VERIF_DIR, stdout=subprocess.PIPE, stderr=subprocess.PIPE)
            out = p.stdout.decode()
            caught = p.returncode == 1 and 'VIOLATION property=%s' % m['prop'] in out
            first = [ln for ln in out.split('\n') if ln.startswith('  oracle=')][:1]
            results.append((m, ('CAUGHT ' + (first[0].strip()[:150] if first else '')) if caught
                            else 'MISSED (rc=%s)' % p.returncode))
    finally:
        shutil.rmtree(scratch_root, ignore_errors=True)
    missed = 0
    for m, r in results:
        print('%s %-28s %s' % (m['prop'], m['name'], r))
        if not r.startswith('CAUGHT'):
            missed += 1
    print('sensitivity: %d mutants, %d not caught' % (len(results), missed))
    return 2 if missed else 0


def main(argv):
    if not argv:
        print(__doc__)
        return 2
    what = argv[0]
    rest = argv[1:]
    n = 200
    runs = 3000
    pids = []
    i = 0
    while i < len(rest):
        if rest[i] == '--n':
            n = int(rest[i + 1])
            i += 2
        elif rest[i] == '--runs':
            runs = int(rest[i + 1])
            i += 2
        else:
            pids.append(rest[i])
            i += 1
    if what == 'determinism':
        return determinism(pids or ALL, n)
    if what == 'sensitivity':
        return sensitivity(pids, runs)
    print(__doc__)
    return 2
