"""Worker: one fresh interpreter per PYTHONHASHSEED class. Runs the worlds for its seed
indices, prints JSON lines on stdout. Never decides exit status of the check."""
import faulthandler
import gc
import importlib
import json
import os
import signal
import sys
import time
import traceback

from . import common
from .common import Streams, RunResult, Violation, run_seed_of, jdigest
from . import findings, shrink


RunTimeout = common.RunTimeout
_alarm = common.alarm_handler


def load_prop(pid):
    return importlib.import_module('verifsim.props.' + pid.lower())


def run_case(prop, case, timeout_s=30.0, keep_log=False):
    """Execute one world. Returns RunResult; harness errors propagate as exceptions."""
    from . import world
    res = RunResult()
    if keep_log:
        res.log.keep = True
    signal.signal(signal.SIGALRM, _alarm)
    signal.setitimer(signal.ITIMER_REAL, timeout_s)
    try:
        try:
            res.violation = prop.run(case, res)
        finally:
            signal.setitimer(signal.ITIMER_REAL, 0)
    except common.Inconclusive:
        signal.setitimer(signal.ITIMER_REAL, 0)
        res.probes.hit('inconclusive')
        res.violation = None
    except common.RomUndefined as e:
        signal.setitimer(signal.ITIMER_REAL, 0)
        res.violation = Violation('rom_contents', 'word_undefined_in_derived_block',
                                  {'what': str(e)[:300]}, ['rom'])
    except common.ForeignMismatch as e:
        signal.setitimer(signal.ITIMER_REAL, 0)
        res.violation = Violation('foreign_activity', 'foreign_design_misbehaves',
                                  {'what': str(e)}, ['foreign'])
    except (common.HarnessError, KeyboardInterrupt, MemoryError):
        signal.setitimer(signal.ITIMER_REAL, 0)
        raise
    except RunTimeout:
        signal.setitimer(signal.ITIMER_REAL, 0)
        hang = getattr(prop, 'HANG_IS_VIOLATION', False)
        if hang:
            res.violation = Violation('termination', 'hang', {'timeout_s': timeout_s},
                                      tags=getattr(prop, 'hang_tags', lambda c: [])(case))
        else:
            raise common.HarnessError('run timed out after %ss' % timeout_s)
    except Exception as e:
        # Outside its explicit fault points (which catch what they expect) a property module
        # only makes legal calls. An exception whose innermost frame is PyRTL's own code is
        # therefore PyRTL refusing or crashing on a legal call; anything else is ours.
        signal.setitimer(signal.ITIMER_REAL, 0)
        tb = traceback.extract_tb(e.__traceback__)
        pyrtl_dir = os.path.join(os.path.realpath(common.REPO_DIR), 'pyrtl') + os.sep
        vs_dir = os.path.join(os.path.realpath(common.VERIF_DIR), 'verifsim') + os.sep
        # the deepest frame that is PyRTL's or ours decides (frames of the standard library
        # below it -- subprocess, ctypes, re -- were called by whoever that is)
        inner = None
        for fr in reversed(tb):
            rp = os.path.realpath(fr.filename)
            if rp.startswith(pyrtl_dir) or rp.startswith(vs_dir):
                inner = fr
                break
        if inner is None or not os.path.realpath(inner.filename).startswith(pyrtl_dir):
            raise
        ours = [f for f in tb if os.sep + 'verifsim' + os.sep in f.filename]
        res.violation = Violation('legal_call', 'exception_inside_pyrtl',
                                  {'exc': type(e).__name__, 'msg': str(e)[:300],
                                   'where': '%s:%d' % (os.path.basename(inner.filename), inner.lineno),
                                   'called_from': ('%s:%d' % (os.path.basename(ours[-1].filename),
                                                              ours[-1].lineno)) if ours else None},
                                  ['exc:' + type(e).__name__])
    finally:
        try:
            world.teardown_world()
        except Exception:
            pass
    if res.violation is not None:
        res.log.log('monitor', 'violation', res.violation.oracle, res.violation.cls)
    return res


def write_replay(prop, case, res, minimised_from=None):
    v = res.violation
    rec = {
        'property': prop.ID, 'oracle': v.oracle, 'class': v.cls, 'tags': v.tags,
        'detail': v.detail, 'pyhashseed': os.environ.get('PYTHONHASHSEED', ''),
        'digest': res.log.digest(), 'case': case,
    }
    if minimised_from:
        rec['minimised_from'] = minimised_from
    d = os.environ.get('VERIF_REPLAY_DIR') or os.path.join(common.VERIF_DIR, 'replays')
    os.makedirs(d, exist_ok=True)
    path = os.path.join(d, '%s-%s.json' % (prop.ID, jdigest([v.oracle, v.cls, case])))
    with open(path, 'w') as f:
        json.dump(rec, f, indent=1, sort_keys=True, default=str)
    return path


def _fresh_replay(path):
    """Replays a file in a fresh interpreter. Returns (same_class, digest)."""
    import re
    import subprocess
    with open(path) as f:
        rec = json.load(f)
    env = dict(os.environ)
    env['PYTHONHASHSEED'] = str(rec.get('pyhashseed') or '0')
    try:
        p = subprocess.run([common.PY, '-m', 'verifsim', 'replay', path], env=env,
                           cwd=common.VERIF_DIR, stdout=subprocess.PIPE, stderr=subprocess.PIPE,
                           timeout=600)
    except subprocess.TimeoutExpired:
        return False, None
    out = p.stdout.decode(errors='replace')
    m = re.search(r'REPLAY property=\S+ oracle=(\S+) class=(\S+) digest=(\S+) (\S+)', out)
    if p.returncode != 1 or not m:
        return False, None
    return (m.group(1) == rec['oracle'] and m.group(2) == rec['class']), m.group(3)


def confirm_replay(prop, path, fallback_case, history_cases, max_fresh=60):
    """A violation must replay from its file in a fresh interpreter. A worker executes many
    worlds in one process; when PyRTL carries state from one world into the next (module-level
    caches, mutated default arguments, class attributes) the failing world alone does not
    fail. The worlds this worker ran before are then part of the failing history: the shortest
    suffix of them that reproduces the violation is found (fresh interpreter per attempt),
    thinned out greedily, and stored in the replay file under 'preceding'.
    history_cases(k) -> the last k cases this worker ran before the failing one."""
    used = [0]

    def attempt(rec):
        used[0] += 1
        with open(path, 'w') as f:
            json.dump(rec, f, indent=1, sort_keys=True, default=str)
        return _fresh_replay(path)

    with open(path) as f:
        rec0 = json.load(f)
    ok, dg = attempt(rec0)
    if ok:
        rec0['digest'] = dg
        rec0['fresh_interpreter'] = 'reproduced'
        attempt(rec0)
        return 'reproduced'
    for case in ([rec0['case']] if fallback_case is None else [rec0['case'], fallback_case]):
        k = 1
        while used[0] < max_fresh:
            prev = history_cases(k)
            rec = dict(rec0, case=case, preceding=prev)
            ok, dg = attempt(rec)
            if ok:
                # thin the history out: drop worlds that are not needed
                j = 0
                while j < len(prev) and used[0] < max_fresh:
                    trial = prev[:j] + prev[j + 1:]
                    ok2, dg2 = attempt(dict(rec, preceding=trial))
                    if ok2:
                        prev, dg = trial, dg2
                    else:
                        j += 1
                rec = dict(rec, preceding=prev, digest=dg,
                           fresh_interpreter='reproduced after %d preceding world(s) of the same '
                                             'worker process' % len(prev))
                attempt(rec)
                return 'reproduced_with_history'
            if len(prev) < k:
                break           # that was the whole history
            k *= 2
    rec0['fresh_interpreter'] = ('NOT reproduced in a fresh interpreter, with or without the '
                                 'worlds this worker ran before')
    with open(path, 'w') as f:
        json.dump(rec0, f, indent=1, sort_keys=True, default=str)
    return 'not_reproduced'


def minimise_case(prop, case, res, budget):
    target = res.violation.key()

    def runner(c):
        try:
            r = run_case(prop, c, timeout_s=getattr(prop, 'RUN_TIMEOUT_S', 30.0))
        except Exception:
            return None
        return r.violation.key() if r.violation else None

    if not hasattr(prop, 'candidates'):
        return case, 0

    def candidates(c0):
        # cases built in two stages (gen.add_late_cone): first try without the history, and
        # keep the stage sizes in step with a shrunk script
        if c0.get('stage'):
            import copy
            c = copy.deepcopy(c0)
            c['stage'] = None
            yield c
        for c in prop.candidates(c0):
            if c0.get('stage') and c.get('stage') and c.get('script') is not None:
                from . import gen
                st = gen.restage(c['script'])
                c['stage'] = dict(c0['stage'], **st) if st else None
            yield c
    small, used = shrink.minimise(case, runner, candidates, budget=budget)
    return small, used


def main(argv):
    pid = argv[0]
    tier = argv[1]
    verif_seed = int(argv[2])
    start = int(argv[3])
    stride = int(argv[4])
    total = int(argv[5])
    deadline = time.time() + float(argv[6])
    selfcheck_n = int(argv[7])
    out = sys.stdout
    faulthandler.enable(file=sys.stderr)
    prop = load_prop(pid)
    known = findings.load()
    timeout_s = getattr(prop, 'RUN_TIMEOUT_S', 30.0)
    agg = {'t': 'summary', 'runs': 0, 'nontrivial': 0, 'cycles': 0, 'probes': {}, 'faults': {},
           'distinct': [], 'scheds': [], 'stateless': 0, 'known_hits': {}, 'stopped_early': False,
           'harness_errors': 0, 'samples': []}
    distinct = set()
    scheds = set()
    unknown_violations = 0
    t0 = time.time()
    i = start
    while i < total:
        if time.time() > deadline:
            agg['stopped_early'] = True
            break
        run_seed = run_seed_of(verif_seed, i)
        streams = Streams(run_seed)
        try:
            case = prop.gen_case(streams, tier)
            case['run_seed'] = run_seed
            res = run_case(prop, case, timeout_s)
        except Exception as e:
            agg['harness_errors'] += 1
            out.write(json.dumps({'t': 'harness_error', 'i': i, 'run_seed': run_seed,
                                  'exc': traceback.format_exc()[-1500:]}) + '\n')
            out.flush()
            if agg['harness_errors'] > 5:
                break
            i += stride
            continue
        agg['runs'] += 1
        agg['cycles'] += res.cycles
        agg['stateless'] += res.stateless
        if res.nontrivial:
            agg['nontrivial'] += 1
            distinct.add(jdigest([res.shape, res.sched, sorted(res.faults.items()),
                                  res.log.digest()]))
        scheds.add(res.sched)
        for k, v in res.probes.items():
            agg['probes'][k] = agg['probes'].get(k, 0) + v
        for k, v in res.faults.items():
            agg['faults'][k] = agg['faults'].get(k, 0) + v
        if i < selfcheck_n:
            out.write(json.dumps({'t': 'digest', 'i': i, 'digest': res.log.digest()}) + '\n')
        if len(agg['samples']) < 2 and res.nontrivial and hasattr(prop, 'sample_of'):
            agg['samples'].append(prop.sample_of(case))
        if res.violation is not None:
            v = res.violation
            kf = findings.match(known, prop.ID, v)
            if kf is not None:
                agg['known_hits'][kf['id']] = agg['known_hits'].get(kf['id'], 0) + 1
            else:
                unknown_violations += 1
                def history_cases(k, _i=i):
                    idx = [j for j in range(start, _i, stride)][-k:]
                    cs = []
                    for j in idx:
                        c = prop.gen_case(Streams(run_seed_of(verif_seed, j)), tier)
                        c['run_seed'] = run_seed_of(verif_seed, j)
                        cs.append(c)
                    return cs
                if unknown_violations == 1:
                    small, used = minimise_case(prop, case, res,
                                                getattr(prop, 'MIN_BUDGET', 300))
                    sres = run_case(prop, small, timeout_s)
                    if sres.violation is None or sres.violation.key() != v.key():
                        small, sres = case, res
                    path = write_replay(prop, small, sres,
                                        minimised_from={'run_seed': run_seed, 'tried': used})

                else:
                    small = case
                    path = write_replay(prop, case, res)
                status = confirm_replay(prop, path, case if small is not case else None,
                                        history_cases)
                agg['probes']['replay_' + status] = agg['probes'].get('replay_' + status, 0) + 1
                out.write(json.dumps({'t': 'violation', 'i': i, 'run_seed': run_seed,
                                      'oracle': v.oracle, 'class': v.cls, 'tags': v.tags,
                                      'detail': v.detail, 'replay': path}, default=str) + '\n')
                out.flush()
                if unknown_violations >= 3:
                    agg['stopped_early'] = True
                    break
        if agg['runs'] % 200 == 0:
            gc.collect()
        i += stride
    agg['distinct'] = sorted(distinct)
    agg['scheds'] = len(scheds)
    agg['wall_s'] = time.time() - t0
    out.write(json.dumps(agg) + '\n')
    out.flush()


if __name__ == '__main__':
    main(sys.argv[1:])
