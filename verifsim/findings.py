"""Known findings: genuine defects recorded rather than repaired. Read-only at run time.

An open finding matches a violation when property, oracle and class are equal and every tag
of the finding is among the violation's tags -- so a different violation of the same
property is still reported. Fixed entries suppress nothing.
"""
import json
import os

from .common import VERIF_DIR

PATH = os.path.join(VERIF_DIR, 'known_findings.json')


def load():
    if not os.path.exists(PATH):
        return []
    with open(PATH) as f:
        return json.load(f).get('findings', [])


def match(known, prop_id, v):
    for k in known:
        if k.get('status') != 'open' or k.get('property') != prop_id:
            continue
        if k.get('oracle') != v.oracle or k.get('class') != v.cls:
            continue
        if all(t in v.tags for t in k.get('tags', [])):
            return k
    return None


def by_id(known, fid):
    for k in known:
        if k.get('id') == fid:
            return k
    return None
