"""Replica runner: several simulators of one design driven from one input tape under a
scheduler-chosen interleaving (skew, batch size, stepping API). Comparison is per cycle
index, so skew never causes a spurious mismatch."""
import io

from .common import HarnessError, Violation
from . import world, common


class Live(object):
    """A live design: a Block plus the key->MemBlock table under which callers keep memory
    state, for each simulator kind (Simulation on a PostSynthBlock wants the *source*
    MemBlock as memory_value_map key; the other two want the block's own)."""

    def __init__(self, block, mems, sim_mems=None):
        self.block = block
        self.mems = mems                      # key(str) -> MemBlock of this block
        self.sim_mems = sim_mems or mems      # key(str) -> MemBlock to hand to pyrtl.Simulation

    @classmethod
    def from_built(cls, built):
        return cls(built.block, {str(i): m for i, m in enumerate(built.mems)})

    @classmethod
    def from_block(cls, block):
        import pyrtl
        mems = {}
        for net in block.logic:
            if net.op in 'm@':
                mems[str(net.op_param[1].id)] = net.op_param[1]
        sim_mems = dict(mems)
        mm = getattr(block, 'mem_map', None)
        if isinstance(block, pyrtl.PostSynthBlock) and mm:
            for src, dst in mm.items():
                for k, m in mems.items():
                    if m is dst:
                        sim_mems[k] = src
        return cls(block, mems, sim_mems)

    def memkey(self):
        table = [(m, k) for k, m in self.mems.items()]

        def f(mem):
            for m, k in table:
                if m is mem:
                    return k
            raise HarnessError('unknown memory')
        return f

    def ram_keys(self):
        import pyrtl
        return [k for k, m in self.mems.items() if not isinstance(m, pyrtl.RomBlock)]


def make_sim(kind, live, init, tracer='all', tracer_obj=None):
    """tracer_obj: a SimulationTrace that an earlier simulator was already constructed on."""
    import pyrtl
    blk = live.block
    rmap = {blk.wirevector_by_name[n]: v for n, v in init.get('regs', {}).items()}
    table = live.sim_mems if kind == 'sim' else live.mems
    mmap = {}
    for k, d in init.get('mems', {}).items():
        mmap[table[k]] = {int(a): v for a, v in d.items()}
    tr = tracer_obj if tracer_obj is not None else pyrtl.SimulationTrace(tracer, block=blk)
    dv = init.get('default', 0)
    kw = {'tracer': tr, 'block': blk}
    # arguments that would be empty / default are left out, so that the constructors' own
    # default arguments (shared between all calls) are what the simulator gets
    if rmap:
        kw['register_value_map'] = rmap
    if mmap:
        kw['memory_value_map'] = mmap
    if dv:
        kw['default_value'] = dv
    if kind == 'sim':
        return pyrtl.Simulation(**kw)
    if kind == 'fast':
        return pyrtl.FastSimulation(**kw)
    if kind == 'compiled':
        return pyrtl.CompiledSimulation(**kw)
    raise HarnessError('sim kind ' + kind)


class Replica(object):
    def __init__(self, label, sim):
        self.label = label
        self.sim = sim
        self.pos = 0

    def traced(self):
        return list(self.sim.tracer.trace)

    def value(self, name, cycle):
        return self.sim.tracer.trace[name][cycle]

    def advance(self, tape, n, method):
        """Consume n cycles. A planted rtl_assert may fire inside: the exception is caught (the
        step it fired in is complete and traced), and the rest of the batch is issued again."""
        left = n
        while left > 0:
            before = world.tracelen(self.sim)
            try:
                self._advance(tape, left, method)
                return
            except common.PlantedAssertion:
                self.fired = getattr(self, 'fired', 0) + 1
                done = world.tracelen(self.sim) - before
                if before < 0 or not (1 <= done <= left):
                    raise common.ReplicaViolation(Violation(
                        'rtl_assert', 'trace_not_extended_by_the_asserting_step',
                        {'sim': self.label, 'cycle': self.pos, 'trace_len_before': before,
                         'trace_len_after': before + done, 'method': method}, [self.label]))
                self.pos += done
                left -= done

    def _advance(self, tape, n, method):
        chunk = tape[self.pos:self.pos + n]
        if method == 'run' and hasattr(self.sim, 'run'):
            # every step's mapping in an insertion order of its own (a mapping has no order)
            steps = []
            for k, c in enumerate(chunk):
                items = list(c.items())
                rot = (self.pos + k) % max(1, len(items))
                items = items[rot:] + items[:rot]
                steps.append(dict(reversed(items) if (self.pos + k) % 2 else items))
            self.sim.run(steps)
        elif method == 'multi':
            names = list(chunk[0].keys())
            if names and self.pos % 2:
                # value lists that reach past the batch, and nsteps to say where it ends
                more = chunk + tape[self.pos + n:self.pos + n + 2]
                self.sim.step_multiple({k: [c[k] for c in more] for k in names},
                                       nsteps=len(chunk), file=io.StringIO())
            elif names:
                self.sim.step_multiple({k: [c[k] for c in chunk] for k in names},
                                       file=io.StringIO())
            else:
                self.sim.step_multiple(nsteps=len(chunk), file=io.StringIO())
        else:
            for c in chunk:
                self.sim.step(dict(c))
        self.pos += n


def gen_interleaving(rng, labels, ncycles, fault_cycles=()):
    """A recorded schedule: list of [replica index, batch, method]."""
    pos = [0] * len(labels)
    skew = rng.choice([0, 1, 2, 4])
    sched = []
    cuts = sorted(set(fault_cycles))
    while min(pos) < ncycles:
        lo = min(pos)
        cands = [i for i in range(len(labels)) if pos[i] < ncycles and pos[i] <= lo + skew]
        i = rng.choice(cands)
        b = min(rng.choice([1, 1, 2, 3]), ncycles - pos[i])
        for c in cuts:
            if pos[i] < c < pos[i] + b:
                b = c - pos[i]
        m = rng.choice(['step', 'step', 'multi', 'run'])
        sched.append([i, b, m])
        pos[i] += b
    return sched


def run_interleaved(replicas, tape, sched, faults, res, on_cycle=None, before=None):
    """Drive replicas per the recorded schedule; faults = {cycle: [fault...]} applied to the
    replica named in fault['replica'] (or all) right before it consumes that cycle.
    on_cycle(cycle_index) is called once every replica has passed that cycle; it returns a
    Violation or None."""
    done = 0
    applied = set()
    for ri, b, m in sched:
        r = replicas[ri]
        if r.pos >= len(tape):
            continue
        for fi, f in enumerate(faults.get(r.pos, [])):
            if f['kind'] != 'reject_step' or getattr(r, 'sim', None) is None:
                continue
            if f.get('replica') not in (None, r.label):
                continue
            if (fi, r.pos, r.label) in applied:
                continue
            applied.add((fi, r.pos, r.label))
            v = world.apply_reject(r.sim, f, tape[r.pos], r.label)
            res.faults.hit('reject_step' if f['value'] != 'rom_hole' else 'rom_hole_read')
            res.log.log('fault', 'reject_step', [r.label, f['wire']], v is None)
            if v:
                return v
        if before is not None:
            v = before(r, r.pos)
            if v:
                return v
        b = min(b, len(tape) - r.pos)
        try:
            r.advance(tape, b, m)
        except HarnessError:
            raise
        except common.ReplicaViolation as e:
            return e.violation
        except Exception as e:
            import pyrtl
            if isinstance(e, (pyrtl.PyrtlError, pyrtl.PyrtlInternalError, ArithmeticError,
                              KeyError, IndexError, TypeError, ValueError, OverflowError)):
                return Violation('legal_step', 'legal_step_raises',
                                 {'sim': r.label, 'cycle': r.pos, 'method': m,
                                  'exc': repr(e)[:300]}, [r.label])
            raise
        res.log.log(r.label, m, b, r.pos)
        res.probes.hit('method:' + m)
        lo = min(x.pos for x in replicas)
        while done < lo:
            if on_cycle:
                v = on_cycle(done)
                if v:
                    return v
            done += 1
    return None
