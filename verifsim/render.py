"""Renders the export texts of one design in a *plain* process: no hash seam, no hook -- real
id()-based hashing, the PYTHONHASHSEED of the environment, optional allocation noise.
stdin: JSON {script, init, cycles, kind, add_reset, noise_seed}; stdout: JSON {name: text}."""
import io
import json
import random
import sys


def render_all(built, init, cycles, kind, add_reset):
    """-> dict of texts. Used in-process (with the seams) and from the subprocess."""
    import pyrtl
    from . import replica
    blk = built.block
    live = replica.Live.from_built(built)
    out = {}
    with pyrtl.set_working_block(blk, no_sanity_check=True):
        buf = io.StringIO()
        pyrtl.output_to_verilog(buf, add_reset=add_reset, block=blk)
        out['verilog'] = buf.getvalue()
        sim = replica.make_sim(kind, live, init, tracer='all' if kind != 'compiled' else None)
        for cyc in cycles:
            sim.step(dict(cyc))
        tr = sim.tracer
        out['trace'] = json.dumps({k: list(tr.trace[k]) for k in sorted(tr.trace)})
        buf = io.StringIO()
        pyrtl.output_verilog_testbench(buf, tr, vcd=None, add_reset=add_reset, block=blk)
        out['testbench'] = buf.getvalue()
        buf = io.StringIO()
        # the skeleton a user asks for before there is any trace
        pyrtl.output_verilog_testbench(buf, None, vcd=None, add_reset=add_reset, block=blk)
        out['testbench_bare'] = buf.getvalue()
        buf = io.StringIO()
        tr.print_vcd(buf)
        out['vcd'] = buf.getvalue()
        for base in (10, 16):
            for compact in (False, True):
                buf = io.StringIO()
                tr.print_trace(buf, base=base, compact=compact)
                out['print_trace_%d_%s' % (base, 'c' if compact else 'n')] = buf.getvalue()
    return out


def main():
    sys.path.insert(0, __file__.rsplit('/', 2)[0])
    from verifsim.netlist import build
    job = json.load(sys.stdin)
    if job.get('blif') is not None:
        # a design that comes out of the BLIF importer: Verilog text and the trace of every wire
        import pyrtl
        pyrtl.reset_working_block()
        pyrtl.input_from_blif(job['blif'], merge_io_vectors=job.get('merge', True), top_model='top')
        blk = pyrtl.working_block()
        buf = io.StringIO()
        pyrtl.output_to_verilog(buf, block=blk)
        sim = pyrtl.Simulation(tracer=pyrtl.SimulationTrace('all', block=blk), block=blk)
        ins = sorted((w.name, w.bitwidth) for w in blk.wirevector_subset(pyrtl.Input))
        for c in range(4):
            sim.step({n: (c * 7 + 3 + i) & ((1 << bw) - 1) for i, (n, bw) in enumerate(ins)})
        json.dump({'verilog': buf.getvalue(),
                   'trace': json.dumps({k: list(v) for k, v in sorted(sim.tracer.trace.items())})},
                  sys.stdout)
        return
    rng = random.Random(job.get('noise_seed', 0))
    junk = [object() for _ in range(rng.randrange(0, 5000))]
    keep = [[0] * rng.randrange(1, 50) for _ in range(rng.randrange(0, 300))]
    b = build(job['script'], perm_seed=job.get('perm_seed'), noise=job.get('noise', 0))
    del junk, keep
    texts = render_all(b, job['init'], job['cycles'], job['kind'], job['add_reset'])
    json.dump(texts, sys.stdout)


if __name__ == '__main__':
    main()
