"""Design scripts (NET dialect), the abstract netlist the reference model runs on, the
builder that turns a script into a live pyrtl Block, and extraction of an abstract netlist
from a live Block.

Script (JSON-serialisable):
  {"wires": [{"n": name, "k": "I|O|W|R|C", "w": width, "v": const value, "rv": reset|None}],
   "mems":  [{"name":, "bw":, "aw":, "async": bool, "rom": None | {"kind": "list|dict|func",
              "data": [...] | [[addr, val], ...] | [a, b], "pad": bool}, "maxr": n, "maxw": n}],
   "nets":  [{"op":, "p": None | [sel indices] | mem index, "a": [names], "d": [names]}]}

Rule (learned the hard way): harness code never applies ==, in, .index, .count to WireVectors
-- WireVector.__eq__ builds hardware. Everything here goes by name or identity.
"""
import random

from .common import HarnessError, mask

ARITY = {'w': 1, '~': 1, '&': 2, '|': 2, '^': 2, 'n': 2, '+': 2, '-': 2, '*': 2,
         '<': 2, '>': 2, '=': 2, 'x': 3, 'c': None, 's': 1, 'r': 1, 'm': 1, '@': 3}


def rom_func(rom, bw):
    """Return a python callable addr -> value for a script ROM description."""
    kind = rom['kind']
    if kind == 'list':
        data = list(rom['data'])
        pad = rom.get('pad', False)

        def f(a):
            if a < len(data):
                return data[a]
            if pad:
                return 0
            raise HarnessError('rom list read outside defined data')
        return f
    if kind == 'dict':
        data = {int(k): v for k, v in rom['data']}
        pad = rom.get('pad', False)

        def f(a):
            if a in data:
                return data[a]
            if pad:
                return 0
            if rom.get('holes'):
                from .common import RomHole
                raise RomHole(a)
            raise HarnessError('rom dict read outside defined data')
        return f
    if kind == 'func':
        a0, b0 = rom['data']
        m = mask(bw)
        return lambda a: (a0 * a + b0) & m
    raise HarnessError('bad rom kind')


def rom_pyrtl_data(rom, bw):
    kind = rom['kind']
    if kind == 'list':
        return list(rom['data'])
    if kind == 'dict':
        return {int(k): v for k, v in rom['data']}
    a0, b0 = rom['data']
    m = mask(bw)

    def romfn(a):
        return (a0 * a + b0) & m
    return romfn


class AWire(object):
    __slots__ = ('name', 'kind', 'width', 'val', 'rv')

    def __init__(self, name, kind, width, val=None, rv=None):
        self.name, self.kind, self.width, self.val, self.rv = name, kind, width, val, rv


class AMem(object):
    __slots__ = ('key', 'bw', 'aw', 'rom', 'name', 'asynchronous')

    def __init__(self, key, bw, aw, rom, name='', asynchronous=False):
        self.key, self.bw, self.aw, self.rom, self.name = key, bw, aw, rom, name
        self.asynchronous = asynchronous


class ANet(object):
    __slots__ = ('op', 'p', 'a', 'd')

    def __init__(self, op, p, a, d):
        self.op, self.p, self.a, self.d = op, p, tuple(a), tuple(d)


class Netlist(object):
    """Abstract netlist: wires by name, nets, memories by key."""

    def __init__(self):
        self.wires = {}
        self.nets = []
        self.mems = {}

    @classmethod
    def from_script(cls, script):
        nl = cls()
        for w in script['wires']:
            nl.wires[w['n']] = AWire(w['n'], w['k'], w['w'], w.get('v'), w.get('rv'))
        for i, m in enumerate(script['mems']):
            rom = rom_func(m['rom'], m['bw']) if m.get('rom') else None
            nl.mems[str(i)] = AMem(str(i), m['bw'], m['aw'], rom, m.get('name', ''),
                                   m.get('async', False))
        for n in script['nets']:
            p = n.get('p')
            if n['op'] == 's':
                p = tuple(p)
            elif n['op'] in 'm@':
                p = str(p)
            nl.nets.append(ANet(n['op'], p, n['a'], n['d']))
        return nl

    @classmethod
    def from_block(cls, block, memkey=None):
        """Read the structure of a live Block. memkey maps a MemBlock to the key under which
        the caller keeps that memory's state (default: the MemBlock's id attribute)."""
        import pyrtl
        nl = cls()
        for w in block.wirevector_set:
            if isinstance(w, pyrtl.Input):
                k = 'I'
            elif isinstance(w, pyrtl.Output):
                k = 'O'
            elif isinstance(w, pyrtl.Const):
                k = 'C'
            elif isinstance(w, pyrtl.Register):
                k = 'R'
            else:
                k = 'W'
            if w.name in nl.wires:
                raise HarnessError('duplicate wire name in block: %s' % w.name)
            nl.wires[w.name] = AWire(w.name, k, w.bitwidth, getattr(w, 'val', None),
                                     getattr(w, 'reset_value', None) if k == 'R' else None)
        for net in block.logic:
            p = net.op_param
            if net.op in 'm@':
                mem = net.op_param[1]
                key = memkey(mem) if memkey else mem.id
                if key not in nl.mems:
                    rom = None
                    if isinstance(mem, pyrtl.RomBlock):
                        def _rom(mm):
                            def read(a):
                                try:
                                    return mm._get_read_data(a)
                                except pyrtl.PyrtlError as e:
                                    from .common import RomUndefined
                                    raise RomUndefined('%s[%d]: %s' % (mm.name, a, e))
                            return read
                        rom = _rom(mem)
                    nl.mems[key] = AMem(key, mem.bitwidth, mem.addrwidth, rom, mem.name,
                                        mem.asynchronous)
                p = key
            nl.nets.append(ANet(net.op, p, [a.name for a in net.args],
                                [d.name for d in net.dests]))
        return nl

    def inputs(self):
        return sorted(n for n, w in self.wires.items() if w.kind == 'I')

    def outputs(self):
        return sorted(n for n, w in self.wires.items() if w.kind == 'O')

    def registers(self):
        return sorted(n for n, w in self.wires.items() if w.kind == 'R')


# ---------------------------------------------------------------------------------------
# validity of a script, computed without any PyRTL checker
# ---------------------------------------------------------------------------------------

def script_problems(script, require_used=True):
    """Return a list of reasons why the script is not a well-formed design ([] = valid)."""
    probs = []
    wires = {}
    for w in script['wires']:
        if w['n'] in wires:
            probs.append('dupname %s' % w['n'])
        wires[w['n']] = w
        if w['w'] < 1:
            probs.append('width')
        if w['k'] == 'C' and not (0 <= w['v'] <= mask(w['w'])):
            probs.append('constval')
    drivers = {}
    readers = {}
    mems = script['mems']
    for n in script['nets']:
        op = n['op']
        if op not in ARITY:
            probs.append('op')
            continue
        a = n['a']
        d = n['d']
        for x in a + d:
            if x not in wires:
                probs.append('unknown wire %s' % x)
                return probs
        if ARITY[op] is not None and len(a) != ARITY[op]:
            probs.append('arity %s' % op)
            continue
        if op == 'c' and len(a) < 1:
            probs.append('arity c')
            continue
        if op == '@':
            if d:
                probs.append('@dest')
        elif len(d) != 1:
            probs.append('ndest')
            continue
        aw = [wires[x]['w'] for x in a]
        for x in a:
            if wires[x]['k'] == 'O':
                probs.append('output as arg')
            readers[x] = readers.get(x, 0) + 1
        for x in d:
            if wires[x]['k'] in 'IC':
                probs.append('input/const as dest')
            drivers[x] = drivers.get(x, 0) + 1
        dw = wires[d[0]]['w'] if d else None
        if op in 'w~r' and dw > aw[0]:
            probs.append('width %s' % op)
        if op in '&|^n+-*<>=' and aw[0] != aw[1]:
            probs.append('argwidth %s' % op)
        if op in '&|^n' and dw > aw[0]:
            probs.append('width %s' % op)
        if op in '+-' and dw > aw[0] + 1:
            probs.append('width %s' % op)
        if op == '*' and dw > 2 * aw[0]:
            probs.append('width *')
        if op in '<>=' and dw != 1:
            probs.append('width cmp')
        if op == 'x' and (aw[0] != 1 or aw[1] != aw[2] or dw > aw[1]):
            probs.append('width x')
        if op == 'c' and dw > sum(aw):
            probs.append('width c')
        if op == 's':
            p = n['p']
            if not p or any((not isinstance(i, int)) or i < 0 or i >= aw[0] for i in p):
                probs.append('selparam')
            elif dw > len(p):
                probs.append('width s')
        if op == 'r' and wires[d[0]]['k'] != 'R':
            probs.append('r dest')
        if op != 'r' and d and wires[d[0]]['k'] == 'R':
            probs.append('reg driven by non-r')
        if op in 'm@':
            mi = n['p']
            if not isinstance(mi, int) or not (0 <= mi < len(mems)):
                probs.append('memparam')
                continue
            m = mems[mi]
            if aw[0] != m['aw']:
                probs.append('addrwidth')
            if op == 'm' and dw != m['bw']:
                probs.append('mem dest width')
            if op == '@' and (aw[1] != m['bw'] or aw[2] != 1):
                probs.append('mem write widths')
            if op == '@' and m.get('rom'):
                probs.append('write to rom')
    for name, w in wires.items():
        k = w['k']
        nd = drivers.get(name, 0)
        if k in 'IC':
            continue
        if nd != 1:
            probs.append('drivers(%s)=%d' % (name, nd))
        if require_used and k in 'WR' and readers.get(name, 0) == 0:
            # a driven-but-unread wire is legal for sanity_check; an undeclared one is not.
            pass
    if probs:
        return probs
    # combinational loops + sync memory rule
    prod = {}
    for n in script['nets']:
        for x in n['d']:
            prod[x] = n
    state = {}

    def visit(root):
        stack = [(root, 0)]
        while stack:
            name, i = stack.pop()
            if i == 0:
                if state.get(name) == 2:
                    continue
                if state.get(name) == 1:
                    return False
                state[name] = 1
            w = wires[name]
            net = prod.get(name)
            if w['k'] in 'ICR' or net is None or net['op'] == 'r':
                state[name] = 2
                continue
            args = net['a']
            if i < len(args):
                stack.append((name, i + 1))
                nxt = args[i]
                if state.get(nxt) == 1:
                    return False
                if state.get(nxt) != 2:
                    stack.append((nxt, 0))
            else:
                state[name] = 2
        return True

    for name in wires:
        if not visit(name):
            probs.append('comb loop via %s' % name)
            return probs
    for n in script['nets']:
        if n['op'] in '@r':
            for x in n['a']:
                if not visit(x):
                    probs.append('comb loop')
                    return probs
    # sync rule for non-async memories' read addresses
    for n in script['nets']:
        if n['op'] == 'm' and not mems[n['p']].get('async', False):
            todo = list(n['a'])
            seen = set()
            while todo:
                x = todo.pop()
                if x in seen:
                    continue
                seen.add(x)
                if wires[x]['k'] in 'IC':
                    continue
                src = prod[x]
                if src['op'] == 'r':
                    continue
                if src['op'] in 'wcs':
                    todo.extend(src['a'])
                else:
                    probs.append('sync mem addr')
                    break
    return probs


# ---------------------------------------------------------------------------------------
# builder: script -> live Block
# ---------------------------------------------------------------------------------------

class Built(object):
    def __init__(self):
        self.block = None
        self.wires = {}      # name -> WireVector
        self.mems = []       # index -> MemBlock


def build(script, perm_seed=None, block=None, noise=0, stage=None):
    """Instantiate the script in a fresh Block with Block.add_net (the documented advanced
    construction API). perm_seed permutes wire creation and net insertion order (any order
    is legal for a netlist); noise allocates garbage wires in a throw-away block between
    statements to perturb object addresses and name counters.
    stage = {'mems': m0, 'wires': w0, 'nets': n0, 'hook': f}: the first m0/w0/n0 entries (a
    complete design of their own) are built first, f(built) is called (the user exports or
    simulates the design as it then is), and the rest is added to the same Block."""
    import pyrtl
    b = Built()
    b.block = block if block is not None else pyrtl.Block()
    blk = b.block
    worder = list(range(len(script['wires'])))
    norder = list(range(len(script['nets'])))
    rng = None
    if perm_seed is not None:
        rng = random.Random(perm_seed)
        rng.shuffle(worder)
        rng.shuffle(norder)
    if stage is not None:
        # stable partition: first-stage entries first, each part in its permuted order
        worder = [i for i in worder if i < stage['wires']] + [i for i in worder if i >= stage['wires']]
        norder = [i for i in norder if i < stage['nets']] + [i for i in norder if i >= stage['nets']]
        first = dict(script, mems=script['mems'][:stage['mems']])
        _build_part(b, first, worder[:stage['wires']], norder[:stage['nets']], rng, noise, 0)
        stage['hook'](b)
        rest = dict(script, mems=script['mems'][stage['mems']:])
        return _build_part(b, rest, worder[stage['wires']:], norder[stage['nets']:], rng, noise,
                           stage['mems'])
    return _build_part(b, script, worder, norder, rng, noise, 0)


def _build_part(b, script, worder, norder, rng, noise, mem_base):
    import pyrtl
    blk = b.block
    junk = pyrtl.Block()
    keep = []
    class _Hole(object):
        def __init__(self):
            self.a = 1

    for m in script['mems']:
        if rng is not None and noise:
            # perturb where the next memory object lands: open holes in the allocator's pools
            junk_objs = [_Hole() for _ in range(rng.randrange(0, 40 * noise))]
            keep.append(junk_objs[::rng.choice([2, 3, 5])])
            del junk_objs
        mrp = mwp = None
        if m.get('ports_exact'):
            gi = next(i for i, mm in enumerate(script['mems']) if mm is m) + mem_base
            mrp = max(1, sum(1 for n in script['nets'] if n['op'] == 'm' and n['p'] == gi))
            mwp = max(1, sum(1 for n in script['nets'] if n['op'] == '@' and n['p'] == gi))
        if m.get('rom'):
            rom_objs = b.__dict__.setdefault('rom_objs', {})
            if m['rom'].get('share_with') is not None and m['rom']['share_with'] in rom_objs:
                romdata = rom_objs[m['rom']['share_with']]     # the very object the other ROM holds
            else:
                romdata = rom_pyrtl_data(m['rom'], m['bw'])
            rom_objs[next(i for i, mm in enumerate(script['mems']) if mm is m) + mem_base] = romdata
            mem = pyrtl.RomBlock(m['bw'], m['aw'], romdata,
                                 name=m.get('name', ''), max_read_ports=mrp,
                                 asynchronous=m.get('async', False),
                                 pad_with_zeros=m['rom'].get('pad', False), block=blk)
        else:
            mem = pyrtl.MemBlock(m['bw'], m['aw'], name=m.get('name', ''),
                                 max_read_ports=mrp, max_write_ports=mwp,
                                 asynchronous=m.get('async', False), block=blk)
        b.mems.append(mem)
    for i in worder:
        w = script['wires'][i]
        k = w['k']
        if rng is not None and noise and rng.random() < 0.3:
            keep.append([pyrtl.WireVector(1, block=junk) for _ in range(rng.randrange(1, noise + 1))])
        if k == 'I':
            o = pyrtl.Input(w['w'], w['n'], block=blk)
        elif k == 'O':
            o = pyrtl.Output(w['w'], w['n'], block=blk)
        elif k == 'C':
            if w.get('sg') and w['w'] >= 2 and (w['v'] >> (w['w'] - 1)):
                # the same bit pattern, written the way a user writes a negative constant
                o = pyrtl.Const(w['v'] - (1 << w['w']), w['w'], name=w['n'], signed=True, block=blk)
            else:
                o = pyrtl.Const(w['v'], w['w'], name=w['n'], block=blk)
        elif k == 'R':
            o = pyrtl.Register(w['w'], w['n'], reset_value=w.get('rv'), block=blk)
        else:
            o = pyrtl.WireVector(w['w'], w['n'], block=blk)
        b.wires[w['n']] = o
    for i in norder:
        n = script['nets'][i]
        op = n['op']
        p = n.get('p')
        if op == 's':
            p = tuple(p)
        elif op in 'm@':
            mem = b.mems[p]
            p = (mem.id, mem)
        args = tuple(b.wires[x] for x in n['a'])
        dests = tuple(b.wires[x] for x in n['d'])
        net = pyrtl.LogicNet(op, p, args, dests)
        blk.add_net(net)
        if op == 'r':
            dests[0].reg_in = args[0]
        elif op == 'm':
            b.mems[n['p']].readport_nets.append(net)
            if b.mems[n['p']].max_read_ports is not None:       # (as MemBlock itself counts)
                b.mems[n['p']].num_read_ports += 1
        elif op == '@':
            b.mems[n['p']].writeport_nets.append(net)
            if b.mems[n['p']].max_write_ports is not None:
                b.mems[n['p']].num_write_ports += 1
    del keep
    return b


def script_shape(script):
    """A digest-able summary of design shape (ops and widths, not names)."""
    wd = {w['n']: w['w'] for w in script['wires']}
    items = sorted((n['op'], tuple(wd[x] for x in n['a']), tuple(wd[x] for x in n['d']))
                   for n in script['nets'])
    return repr(items)
