"""Seeded generator of NET-dialect design scripts, input tapes and initial states."""
from .common import mask

WIDTH_CLASSES = {
    'bit': [1],
    'small': [2, 3, 4, 5, 6, 7, 8],
    'mid': [9, 12, 16, 17, 24],
    'w32': [31, 32, 33],
    'w64': [63, 64, 65],
    'w128': [127, 128, 129, 130],
    'huge': [200],
}

AWKWARD_NAMES = ['b.x', 'c-y', 'a[0]', 'a[1]', '3w', 'wire', 'always', 'x1', 'x01', 'x001',
                 'reg', 'assign', 'q$', 'a b', 'out', 'in', 'module', 'x10', 'x2', 'é',
                 'input', 'output', 'tmp', 'begin', 'end', 'my_sig', 'X1', 'a.b.c', 'n-1',
                 'a[10]', 'a[9]', 'a[2]', 'v.10', 'v.9',
                 # pairs that differ only in their illegal characters, and plain names that equal
                 # a punctuated one once the punctuation is dropped
                 'b x', 'c.y', 'a(0)', 'v 9', 'a0', 'bx', 'v10', 'a.b-c',
                 # an ASCII letter first, a letter outside ASCII later
                 'na\u00efve', 'z\u00e4hler']

COLLIDING_NAME_PAIRS = [('b.x', 'b x'), ('c-y', 'c.y'), ('a[0]', 'a(0)'), ('v.9', 'v 9'),
                        ('a[0]', 'a0'), ('b.x', 'bx'), ('v.10', 'v10'), ('a.b.c', 'a.b-c')]

COMB_OPS = 'w~&|^n+-*<>=xcs'

DEFAULT_CFG = {
    'nets': (3, 25),
    'classes': None,           # None: swarm-chosen
    'class_pool': ['bit', 'small', 'mid', 'w32', 'w64', 'w128', 'huge'],
    'ops': COMB_OPS,
    'trunc': None,             # None: swarm-chosen per run
    'inputs': (1, 4),
    'consts': (0, 3),
    'regs': (0, 3),
    'mems': (0, 2),
    'roms': (0, 1),
    'mem_aw': (1, 6),
    'mem_wide_aw': 0.05,       # probability of an address width in 65..70
    'mem_bw_classes': None,    # None: same pool as wires
    'max_mul_width': 130,
    'max_concat': 260,
    'names': 'plain',
    'probe_frac': 0.3,
    'async_prob': 0.4,
    'ports_exact_prob': 0.3,
    'cycles': (1, 12),
    'rom_aw_max': 5,
    'two_write_ports': 0.3,
    'dup_prob': 0.0,           # re-emit an existing net (same or swapped args): CSE fodder
    'dead_frac': 0.0,          # fraction of unread wires left without an Output (dead logic)
    'const_reg_prob': 0.0,     # registers whose next value is a constant (directly or chained)
    'const_bias': 0.0,         # extra probability that an operand is a constant
    'awk_limit': None,         # e.g. {'i': 1, 'o': 1, 'r': 1}: awkward names per wire class
    'awk_exclude': (),
}


def make_cfg(**kw):
    c = dict(DEFAULT_CFG)
    c.update(kw)
    return c


def rand_val(rng, width):
    m = mask(width)
    r = rng.random()
    if r < 0.12:
        return 0
    if r < 0.24:
        return m
    if r < 0.30:
        return 1
    if r < 0.36:
        return 1 << (width - 1)
    if r < 0.42:
        return m >> 1
    if r < 0.50 and width > 64:
        # patterns straddling limb boundaries
        k = rng.choice([63, 64, 65])
        if k < width:
            return ((1 << k) - rng.randrange(0, 3)) & m
    if r < 0.58:
        return rng.getrandbits(width) & rng.getrandbits(width)
    if r < 0.66:
        return (rng.getrandbits(width) | rng.getrandbits(width)) & m
    return rng.getrandbits(width)


def copy_param(p):
    return list(p) if isinstance(p, list) else p


class _G(object):
    def __init__(self, rng, cfg):
        self.rng = rng
        self.cfg = cfg
        self.wires = []
        self.nets = []
        self.mems = []
        self.avail = []        # [name, width, syncready]
        self.readers = {}
        self.names = set()
        self.counter = {}
        pool = cfg['classes']
        if pool is None:
            k = rng.choice([1, 2, 2, 3])
            pool = rng.sample(cfg['class_pool'], min(k, len(cfg['class_pool'])))
        self.pool = pool
        self.trunc = cfg['trunc'] if cfg['trunc'] is not None else (rng.random() < 0.5)
        self.awk = list(AWKWARD_NAMES)
        self.awk_used = {}
        rng.shuffle(self.awk)
        if cfg.get('awk_pair_prob') and rng.random() < cfg['awk_pair_prob']:
            # make sure two names that differ only in punctuation meet in one design
            pair = rng.choice(COLLIDING_NAME_PAIRS)
            self.awk = [n for n in self.awk if n not in pair] + list(pair)

    # -- names ------------------------------------------------------------------------
    def name(self, prefix, user_visible=False):
        if prefix == 't' and self.cfg.get('awk_internal') and self.rng.random() < self.cfg['awk_internal']:
            user_visible = True
        if self.cfg['names'] == 'awkward' and user_visible and self.awk and self.rng.random() < 0.5:
            lim = self.cfg['awk_limit']
            if lim is None or self.awk_used.get(prefix, 0) < lim.get(prefix, 1 << 30):
                n = self.awk.pop()
                if n not in self.names and n not in self.cfg['awk_exclude']:
                    self.names.add(n)
                    self.awk_used[prefix] = self.awk_used.get(prefix, 0) + 1
                    return n
        i = self.counter.get(prefix, 0)
        while True:
            n = '%s%d' % (prefix, i)
            i += 1
            if n not in self.names:
                break
        self.counter[prefix] = i
        self.names.add(n)
        return n

    def width(self, limit=None):
        for _ in range(8):
            w = self.rng.choice(WIDTH_CLASSES[self.rng.choice(self.pool)])
            if limit is None or w <= limit:
                return w
        return self.rng.randint(1, limit)

    # -- wires and nets ---------------------------------------------------------------
    def add_wire(self, kind, width, name, val=None, rv=None, sync=False, avail=True):
        w = {'n': name, 'k': kind, 'w': width}
        if kind == 'C':
            w['v'] = val
            if self.rng.random() < 0.2:
                w['sg'] = True
        if kind == 'R':
            w['rv'] = rv
        self.wires.append(w)
        if avail and kind != 'O':
            self.avail.append([name, width, sync])
        return name

    def add_net(self, op, p, args, dests):
        self.nets.append({'op': op, 'p': p, 'a': list(args), 'd': list(dests)})
        for a in args:
            self.readers[a] = self.readers.get(a, 0) + 1

    def sync_of(self, name):
        for n, w, s in self.avail:
            if n == name:
                return s
        return False

    def sel_indices(self, srcw, length):
        rng = self.rng
        r = rng.random()
        if r < 0.35 and srcw >= length:
            lo = rng.randint(0, srcw - length)
            return list(range(lo, lo + length))
        if r < 0.45 and srcw >= length:
            lo = rng.randint(0, srcw - length)
            return list(range(lo + length - 1, lo - 1, -1))
        if r < 0.55:
            return [rng.randrange(srcw)] * length
        if r < 0.75:
            # runs of consecutive bits (the run-length path of FastSimulation)
            out = []
            while len(out) < length:
                lo = rng.randrange(srcw)
                ln = rng.randint(1, max(1, min(srcw - lo, length - len(out))))
                out.extend(range(lo, lo + ln))
            return out[:length]
        return [rng.randrange(srcw) for _ in range(length)]

    def want(self, width, sync=False, exact_prob=0.6):
        """Name of a wire of exactly this width (an adaptor net is created if needed)."""
        rng = self.rng
        if self.cfg['const_bias'] and rng.random() < self.cfg['const_bias']:
            n = self.name('c')
            v = rng.choice([0, mask(width), rand_val(rng, width)])
            self.add_wire('C', width, n, val=v, sync=True)
            if self.cfg.get('computed_const_prob') and not sync and \
                    rng.random() < self.cfg['computed_const_prob']:
                # a constant one fold away: the operand is ~c (a net with constant arguments
                # only), so it becomes a Const only after a first constant-propagation pass
                t = self.name('t')
                self.add_wire('W', width, t, sync=False)
                self.add_net('~', None, [n], [t])
                return t
            return n
        cands = [a for a in self.avail if a[1] == width and (a[2] or not sync)]
        if cands and rng.random() < exact_prob:
            return rng.choice(cands)[0]
        srcs = [a for a in self.avail if (a[2] or not sync)]
        if not srcs:
            # nothing sync-ready: make a const
            n = self.name('c')
            self.add_wire('C', width, n, val=rand_val(rng, width), sync=True)
            return n
        src = rng.choice(srcs)
        r = rng.random()
        if r < 0.25:
            # concat of up to 3 pieces then maybe truncated by a select
            pieces = [src]
            tot = src[1]
            while tot < width and len(pieces) < 4:
                q = rng.choice(srcs)
                pieces.append(q)
                tot += q[1]
            if tot >= width and tot <= self.cfg['max_concat']:
                cn = self.name('t')
                syn = all(q[2] for q in pieces)
                dw = width if (self.trunc and rng.random() < 0.5) else tot
                self.add_wire('W', dw, cn, sync=syn)
                self.add_net('c', None, [q[0] for q in pieces], [cn])
                if dw == width:
                    return cn
                src = [cn, dw, syn]
        n = self.name('t')
        self.add_wire('W', width, n, sync=src[2])
        if src[1] == width and rng.random() < 0.5:
            self.add_net('w', None, [src[0]], [n])
        else:
            self.add_net('s', self.sel_indices(src[1], width), [src[0]], [n])
        return n

    def dest(self, natural, sync=False, exact=False):
        rng = self.rng
        w = natural
        if self.trunc and not exact and natural > 1 and rng.random() < 0.35:
            w = rng.choice([natural - 1, rng.randint(1, natural), max(1, natural - 64),
                            max(1, natural // 2)])
            w = max(1, min(w, natural))
        n = self.name('t')
        self.add_wire('W', w, n, sync=sync)
        return n

    def comb_net(self, op):
        rng = self.rng
        cfg = self.cfg
        if op in 'w~':
            w = self.width()
            a = self.want(w)
            d = self.dest(w, sync=(op == 'w' and self.sync_of(a)))
            self.add_net(op, None, [a], [d])
        elif op in '&|^n':
            w = self.width()
            a, b = self.want(w), self.want(w)
            self.add_net(op, None, [a, b], [self.dest(w)])
        elif op in '+-':
            w = self.width()
            a, b = self.want(w), self.want(w)
            self.add_net(op, None, [a, b], [self.dest(w + 1)])
        elif op == '*':
            w = self.width(cfg['max_mul_width'])
            a, b = self.want(w), self.want(w)
            self.add_net(op, None, [a, b], [self.dest(2 * w)])
        elif op in '<>=':
            w = self.width()
            a, b = self.want(w), self.want(w)
            self.add_net(op, None, [a, b], [self.dest(1, exact=True)])
        elif op == 'x':
            w = self.width()
            s = self.want(1)
            a, b = self.want(w), self.want(w)
            self.add_net(op, None, [s, a, b], [self.dest(w)])
        elif op == 'c':
            k = rng.choice([1, 2, 2, 3, 3, 4, 5])
            args = []
            tot = 0
            rep = rng.choice(self.avail) if rng.random() < 0.12 else None   # concat_list([b] * k)
            for _ in range(k):
                q = rep if rep is not None else rng.choice(self.avail)
                if tot + q[1] > cfg['max_concat']:
                    break
                args.append(q)
                tot += q[1]
            if not args:
                return
            syn = all(q[2] for q in args)
            self.add_net('c', None, [q[0] for q in args], [self.dest(tot, sync=syn)])
        elif op == 's':
            q = rng.choice(self.avail)
            ln = rng.choice([1, 1, q[1], max(1, q[1] - 1), rng.randint(1, min(2 * q[1], 140))])
            ln = min(ln, 200)
            idx = self.sel_indices(q[1], ln)
            self.add_net('s', idx, [q[0]], [self.dest(ln, sync=q[2])])

    def const_pad_pair(self):
        """Two concats of the same wire with same-valued constant pads whose widths are
        swapped (x << w2 vs x << w1): equal except for constant bitwidths."""
        rng = self.rng
        x = rng.choice(self.avail)
        w1, w2 = rng.sample([1, 2, 3, 4, 5], 2)
        v = rng.choice([0, 0, 1])
        total = x[1] + w1 + w2
        if total > self.cfg['max_concat']:
            return
        outs = []
        for a, b in ((w1, w2), (w2, w1)):
            ca, cb = self.name('c'), self.name('c')
            self.add_wire('C', a, ca, val=v & mask(a), sync=True)
            self.add_wire('C', b, cb, val=v & mask(b), sync=True)
            d = self.name('t')
            self.add_wire('W', total, d, sync=x[2])
            self.add_net('c', None, [ca, x[0], cb], [d])
            outs.append(d)
        return outs

    def dup_net(self):
        rng = self.rng
        if rng.random() < 0.15:
            self.const_pad_pair()
            return
        cands = [n for n in self.nets if n['op'] in COMB_OPS + 'm' and n['d']]
        if not cands:
            return
        n = rng.choice(cands)
        args = list(n['a'])
        if len(args) == 2 and rng.random() < 0.5:
            args.reverse()
        elif n['op'] == 'x' and rng.random() < 0.3:
            args[1], args[2] = args[2], args[1]
        wd = {w['n']: w['w'] for w in self.wires}
        dw = wd[n['d'][0]]
        if self.trunc and dw > 1 and n['op'] not in '<>=m' and rng.random() < 0.3:
            dw = rng.randint(1, dw)
        d = self.name('t')
        self.add_wire('W', dw, d, sync=self.sync_of(n['d'][0]) if n['op'] in 'wcs' else False)
        self.add_net(n['op'], copy_param(n['p']), args, [d])

    # -- memories -----------------------------------------------------------------------
    def add_mem(self, rom):
        rng = self.rng
        cfg = self.cfg
        if rom:
            aw = rng.randint(1, cfg['rom_aw_max'])
        elif rng.random() < cfg['mem_wide_aw']:
            aw = rng.choice([65, 66, 70])
        elif cfg.get('mem_mid_aw') and rng.random() < cfg['mem_mid_aw']:
            aw = rng.choice([9, 10, 12, 16, 31, 32, 33])
        else:
            aw = rng.randint(*cfg['mem_aw'])
        if cfg['mem_bw_classes']:
            bw = rng.choice(WIDTH_CLASSES[rng.choice(cfg['mem_bw_classes'])])
        else:
            bw = self.width()
        m = {'name': self.name('mem'), 'bw': bw, 'aw': aw,
             'async': rng.random() < cfg['async_prob'], 'rom': None}
        if self.mems and cfg.get('dup_mem_name_prob') and rng.random() < cfg['dup_mem_name_prob']:
            # memory names need not be unique (a helper that creates MemBlock(name='scratch')
            # instantiated twice): nets and simulators identify a memory by object / id
            m['name'] = self.mems[-1]['name']
            if not rom and not self.mems[-1].get('rom'):
                # ... and is read through the very address wire its namesake is read through
                m['aw'] = self.mems[-1]['aw']
                m['async'] = self.mems[-1]['async']
                m['namesake'] = len(self.mems) - 1
        if cfg.get('ports_exact_prob') and rng.random() < cfg['ports_exact_prob']:
            m['ports_exact'] = True     # declared with max_read/write_ports = the ports it has
        if rom:
            kind = rng.choice(['list', 'dict', 'func'])
            size = 1 << aw
            if kind == 'list':
                pad = rng.random() < 0.4
                ln = size if not pad else rng.randint(0, size)
                m['rom'] = {'kind': 'list', 'data': [rand_val(rng, bw) for _ in range(ln)],
                            'pad': pad}
            elif kind == 'dict':
                pad = rng.random() < 0.4
                keys = list(range(size))
                if pad:
                    keys = rng.sample(keys, rng.randint(0, size))
                m['rom'] = {'kind': 'dict', 'data': [[k, rand_val(rng, bw)] for k in sorted(keys)],
                            'pad': pad}
                if not pad and size >= 2 and cfg.get('rom_holes_prob') and \
                        rng.random() < cfg['rom_holes_prob']:
                    # romdata with holes and no padding: reading a hole is refused by the
                    # simulator with PyrtlError (fault 'rom_hole': the step is not a cycle)
                    drop = set(rng.sample(range(size), rng.randint(1, max(1, size // 3))))
                    m['rom']['data'] = [kv for kv in m['rom']['data'] if kv[0] not in drop]
                    m['rom']['holes'] = True
            else:
                m['rom'] = {'kind': 'func', 'data': [rng.getrandbits(min(bw, 60)) | 1,
                                                     rng.getrandbits(min(bw, 60))], 'pad': False}
            earlier = [i for i, e in enumerate(self.mems)
                       if e.get('rom') and e['rom']['kind'] in ('list', 'func') and not e['rom'].get('share_with')
                       and e['aw'] >= 2]
            if earlier and cfg.get('share_romdata_prob') and rng.random() < cfg['share_romdata_prob']:
                # two ROMs of different depth built from ONE table object (a lookup table and a
                # shorter view of it): what a ROM holds is the object AND the ROM's own shape
                src = earlier[-1]
                e = self.mems[src]
                deeper = (e['rom']['kind'] == 'func' or e['rom'].get('pad')) and rng.random() < 0.6
                m['bw'], m['aw'] = e['bw'], e['aw'] + (1 if deeper else -1)
                m['rom'] = dict(e['rom'], share_with=src)
        self.mems.append(m)
        return len(self.mems) - 1

    def read_port(self, mi, addr=None):
        m = self.mems[mi]
        if addr is None:
            addr = self.want(m['aw'], sync=not m['async'])
        n = self.name('t')
        self.add_wire('W', m['bw'], n, sync=False)
        self.add_net('m', mi, [addr], [n])

    def write_ports(self, mi):
        rng = self.rng
        m = self.mems[mi]
        addr, data, en = self.want(m['aw']), self.want(m['bw']), self.want(1)
        self.add_net('@', mi, [addr, data, en], [])
        if rng.random() < self.cfg['two_write_ports']:
            addr2, data2, en2 = self.want(m['aw']), self.want(m['bw']), self.want(1)
            if rng.random() < 0.75:
                # make the enables mutually exclusive so no same-cycle double write can occur
                t = self.name('t')
                self.add_wire('W', 1, t)
                self.add_net('~', None, [en], [t])
                e = self.name('t')
                self.add_wire('W', 1, e)
                self.add_net('&', None, [t, en2], [e])
                en2 = e
            self.add_net('@', mi, [addr2, data2, en2], [])


def gen_script(rng, cfg):
    g = _G(rng, cfg)
    vis = True
    for _ in range(rng.randint(*cfg['inputs'])):
        g.add_wire('I', g.width(), g.name('i', vis), sync=True)
    for _ in range(rng.randint(*cfg['consts'])):
        w = g.width()
        cv = rand_val(rng, w)
        cn = g.name('c')
        if cfg.get('const_quote_prob') and rng.random() < cfg['const_quote_prob']:
            # the name PyRTL gives a Verilog-style string constant: const_<n>_<w>'h<v>
            qn = "const_%s_%d'h%x" % (cn[1:], w, cv)
            if rng.random() < 0.4:
                # or a name of the user's own with punctuation in it, sharing its first part
                # with other constants
                qn = rng.choice(['cfg.lo', 'cfg.hi', 'cfg-x', 'k.0', 'k.1'])
            if qn not in g.names:
                g.names.add(qn)
                cn = qn
        g.add_wire('C', w, cn, val=cv, sync=True)
    regs = []
    for _ in range(rng.randint(*cfg['regs'])):
        w = g.width()
        r = rng.random()
        rv = None if r < 0.4 else (0 if r < 0.5 else rand_val(rng, w))
        regs.append((g.add_wire('R', w, g.name('r', vis), rv=rv, sync=True), w))
    if not g.avail:
        g.add_wire('I', g.width(), g.name('i', vis), sync=True)
    nm = rng.randint(*cfg['mems'])
    nr = rng.randint(*cfg['roms'])
    mis = [g.add_mem(False) for _ in range(nm)] + [g.add_mem(True) for _ in range(nr)]
    ops = cfg['ops']
    n = rng.randint(*cfg['nets'])
    # swarm: a random subset of ops dominates this run
    fav = [o for o in ops if rng.random() < 0.6] or list(ops)
    for i in range(n):
        if mis and rng.random() < 0.2:
            g.read_port(rng.choice(mis))
        elif cfg['dup_prob'] and g.nets and rng.random() < cfg['dup_prob']:
            g.dup_net()
        else:
            g.comb_net(rng.choice(fav if rng.random() < 0.8 else ops))
    for mi in mis:
        ns = g.mems[mi].get('namesake')
        if ns is not None:
            shared = [nt['a'][0] for nt in g.nets if nt['op'] == 'm' and nt['p'] == ns]
            if shared:
                g.read_port(mi, addr=shared[0])
    for mi in mis:
        if g.mems[mi]['rom'] is None:
            g.write_ports(mi)
            if not any(nt['op'] == 'm' and nt['p'] == mi for nt in g.nets):
                if cfg.get('write_only_mem_prob') and rng.random() < cfg['write_only_mem_prob']:
                    continue        # a log buffer: written, read back only through inspect_mem
                g.read_port(mi)
        elif not any(nt['op'] == 'm' and nt['p'] == mi for nt in g.nets):
            g.read_port(mi)
    for name, w in regs:
        if cfg['const_reg_prob'] and rng.random() < cfg['const_reg_prob']:
            cs = [a for a in g.avail if a[1] == w and
                  any(x['n'] == a[0] and x['k'] == 'C' for x in g.wires)]
            if cs and rng.random() < 0.7:
                src = rng.choice(cs)[0]
            else:
                src = g.name('c')
                g.add_wire('C', w, src, val=rand_val(rng, w), sync=True)
            g.add_net('r', None, [src], [name])
            continue
        if g.trunc and rng.random() < 0.3:
            src = rng.choice(g.avail)
            if src[1] >= w:
                g.add_net('r', None, [src[0]], [name])
                continue
        g.add_net('r', None, [g.want(w)], [name])
    # outputs: everything unread gets one; a fraction of the rest gets a probe
    kinds = {w['n']: w['k'] for w in g.wires}
    made = 0
    for name, w, _s in list(g.avail):
        unread = g.readers.get(name, 0) == 0
        if unread and kinds[name] == 'W' and cfg['dead_frac'] and rng.random() < cfg['dead_frac']:
            continue
        if kinds[name] in 'IC' and not (unread and rng.random() < 0.5):
            if not (rng.random() < cfg['probe_frac'] * 0.3):
                continue
        elif not unread and rng.random() >= cfg['probe_frac']:
            continue
        ow = w
        if g.trunc and w > 1 and rng.random() < 0.2:
            ow = rng.randint(1, w)
        o = g.name('o', vis)
        g.add_wire('O', ow, o)
        g.add_net('w', None, [name], [o])
        made += 1
    if not made:
        name, w, _s = rng.choice(g.avail)
        o = g.name('o', vis)
        g.add_wire('O', w, o)
        g.add_net('w', None, [name], [o])
    return {'wires': g.wires, 'mems': g.mems, 'nets': g.nets,
            'meta': {'pool': g.pool, 'trunc': g.trunc}}


def gen_inputs(rng, script, ncycles):
    ins = [(w['n'], w['w']) for w in script['wires'] if w['k'] == 'I']
    tape = []
    prev = None
    for _ in range(ncycles):
        if prev is not None and rng.random() < 0.15:
            tape.append(dict(prev))          # an idle cycle: the whole stimulus repeats
            continue
        cyc = {}
        for n, w in ins:
            if prev is not None and rng.random() < 0.15:
                cyc[n] = prev[n]
            else:
                cyc[n] = rand_val(rng, w)
        tape.append(cyc)
        prev = cyc
    return tape


def gen_init(rng, script, allow_default=True, mem_misfit=False):
    regs = {}
    for w in script['wires']:
        if w['k'] == 'R' and rng.random() < 0.4:
            regs[w['n']] = rand_val(rng, w['w'])
    mems = {}
    for i, m in enumerate(script['mems']):
        if m.get('rom') or rng.random() < 0.4:
            continue
        d = {}
        amax = mask(m['aw'])
        for _ in range(rng.randint(1, 5)):
            a = rng.choice([0, amax, rng.randint(0, amax), rng.randint(0, min(amax, 7))])
            d[str(a)] = rand_val(rng, m['bw'])
        mems[str(i)] = d
    default = 0
    if allow_default and rng.random() < 0.2:
        default = 1
        if rng.random() < 0.4:
            # a larger default is legal when it fits every register and every memory word
            # (inputs may well be narrower)
            lim = [w['w'] for w in script['wires'] if w['k'] == 'R']
            if not (mem_misfit and rng.random() < 0.6):
                # (with mem_misfit the default need only fit the registers: a memory read of
                # an unwritten address then delivers it truncated to the port width)
                lim += [m['bw'] for m in script['mems'] if not m.get('rom')]
            room = min(lim) if lim else 8
            if room >= 2:
                default = rng.randrange(2, 1 << min(room, 8))
    return {'regs': regs, 'mems': mems, 'default': default}


def add_late_cone(rng, script, with_mem=True):
    """-> (script2, stage): script2 is script plus a small cone added AFTER the design was
    complete (a user exports or simulates a design, then keeps building on the same Block):
    an Input, a Register, an Output, and possibly a memory with one read and one write port,
    reading one existing wire. stage = the sizes of the original design inside script2."""
    import copy
    s = copy.deepcopy(script)
    stage = {'mems': len(s['mems']), 'wires': len(s['wires']), 'nets': len(s['nets'])}
    names = {w['n'] for w in s['wires']}
    cands = [w for w in s['wires'] if w['k'] in 'IWR' and w['w'] <= 40]
    if not cands or any(n.startswith('late_') for n in names):
        return None, None
    x = rng.choice(cands)
    w = x['w']

    def wire(kind, width, name, **kw):
        d = {'n': name, 'k': kind, 'w': width}
        d.update(kw)
        s['wires'].append(d)
        return name
    li = wire('I', w, 'late_i')
    lr = wire('R', w, 'late_r', rv=rng.choice([None, 0, rand_val(rng, w)]))
    t1 = wire('W', w, 'late_t1')
    t2 = wire('W', w, 'late_t2')
    lo = wire('O', w, 'late_o')
    s['nets'].append({'op': '^', 'p': None, 'a': [li, x['n']], 'd': [t1]})
    s['nets'].append({'op': 'r', 'p': None, 'a': [t1], 'd': [lr]})
    s['nets'].append({'op': '|', 'p': None, 'a': [lr, li], 'd': [t2]})
    s['nets'].append({'op': 'w', 'p': None, 'a': [t2], 'd': [lo]})
    if with_mem and rng.random() < 0.5:
        mi = len(s['mems'])
        s['mems'].append({'bw': w, 'aw': 2, 'name': 'late_mem', 'async': rng.random() < 0.5})
        la = wire('I', 2, 'late_a')
        lwe = wire('I', 1, 'late_we')
        md = wire('W', w, 'late_md')
        mo = wire('O', w, 'late_mo')
        s['nets'].append({'op': 'm', 'p': mi, 'a': [la], 'd': [md]})
        s['nets'].append({'op': '@', 'p': mi, 'a': [la, t1, lwe], 'd': []})
        s['nets'].append({'op': 'w', 'p': None, 'a': [md], 'd': [mo]})
    return s, stage


def restage(script):
    """The stage sizes of a (possibly shrunk) script that carries a late cone, or None."""
    late = {w['n'] for w in script['wires'] if str(w['n']).startswith('late_')}
    if not late:
        return None
    nw = sum(1 for w in script['wires'] if w['n'] not in late)
    nn = sum(1 for n in script['nets'] if not (set(n['a']) | set(n['d'])) & late)
    nm = sum(1 for m in script['mems'] if m.get('name') != 'late_mem')
    # the late part must still be a suffix of each list
    if any(w['n'] in late for w in script['wires'][:nw]) or \
            any((set(n['a']) | set(n['d'])) & late for n in script['nets'][:nn]) or \
            any(m.get('name') == 'late_mem' for m in script['mems'][:nm]):
        return None
    return {'mems': nm, 'wires': nw, 'nets': nn}


def maybe_stage(rng, script, prob, uses):
    """With probability prob: (script + late cone, {'mems','wires','nets','use'}), else
    (script, None). 'use' names what is done to the design before it is extended."""
    if rng.random() >= prob:
        return script, None
    s2, st = add_late_cone(rng, script)
    if s2 is None:
        return script, None
    st['use'] = rng.choice(uses)
    return s2, st


def split_rom_holes(script, init, cycles):
    """-> (cycles that are cycles, reject faults). A stimulus under which the reference model
    reads a ROM hole is not a cycle: it is taken out of the tape and offered, as a fault, right
    before the next real cycle; the simulator must refuse it and go on as if nothing happened."""
    if not any(m.get('rom') and m['rom'].get('holes') for m in script['mems']):
        return cycles, []
    from .common import RomHole
    from .refsim import DoubleWrite
    from . import world
    ref = world.ref_for(script, init)
    clean, faults = [], []
    for cyc in cycles:
        try:
            ref.step(cyc)
        except RomHole:
            faults.append({'kind': 'reject_step', 'at': len(clean), 'wire': None,
                           'value': 'rom_hole', 'inputs': dict(cyc)})
            continue
        except DoubleWrite:
            clean.append(cyc)
            break
        clean.append(cyc)
    return clean, faults
