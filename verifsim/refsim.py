"""RefSim: the reference model. Written from the LogicNet docstring table and the Simulation
class docstring (step ordering), not from Simulation._execute. Demand-driven, memoised
evaluation -- it never uses Block.__iter__, so it is independent of the schedule under test.

Cycle semantics:
  registers show their current value; combinational wires are functions of current values;
  every memory read sees the memory as it was at the end of the previous cycle; enabled
  writes land at the end of the cycle; next register values are captured at the end.
"""
from .common import HarnessError, mask


class DoubleWrite(Exception):
    """Two enabled write ports hit one address of one memory in one cycle: documented
    undefined (core.py Block docstring); the caller stops comparing at the previous cycle."""


class RefSim(object):
    def __init__(self, nl, reg_init=None, mem_init=None, default_value=0):
        self.nl = nl
        self.default = default_value
        self.prod = {}
        for net in nl.nets:
            for d in net.d:
                if d in self.prod:
                    raise HarnessError('refsim: wire %s has two drivers' % d)
                self.prod[d] = net
        self.regs = {}
        reg_init = reg_init or {}
        for name, w in nl.wires.items():
            if w.kind == 'R':
                if name in reg_init:
                    v = reg_init[name]
                elif w.rv is not None:
                    v = w.rv
                else:
                    v = default_value
                self.regs[name] = v
        self.mems = {}
        mem_init = mem_init or {}
        for key, m in nl.mems.items():
            if m.rom is None:
                self.mems[key] = dict(mem_init.get(key, {}))
        self.writes = [n for n in nl.nets if n.op == '@']
        self.regnets = [n for n in nl.nets if n.op == 'r']
        self.values = {}
        self.cycle = 0
        self.touched = {k: set() for k in self.mems}

    # -- evaluation ---------------------------------------------------------------------
    def _compute(self, net, v):
        op = net.op
        W = self.nl.wires
        a = [v[x] for x in net.a]
        if op == 'w':
            r = a[0]
        elif op == '~':
            r = ~a[0]
        elif op == '&':
            r = a[0] & a[1]
        elif op == '|':
            r = a[0] | a[1]
        elif op == '^':
            r = a[0] ^ a[1]
        elif op == 'n':
            r = ~(a[0] & a[1])
        elif op == '+':
            r = a[0] + a[1]
        elif op == '-':
            r = a[0] - a[1]
        elif op == '*':
            r = a[0] * a[1]
        elif op == '=':
            r = 1 if a[0] == a[1] else 0
        elif op == '<':
            r = 1 if a[0] < a[1] else 0
        elif op == '>':
            r = 1 if a[0] > a[1] else 0
        elif op == 'x':
            r = a[2] if a[0] else a[1]
        elif op == 'c':
            r = 0
            for name, val in zip(net.a, a):
                r = (r << W[name].width) | val
        elif op == 's':
            r = 0
            for i, b in enumerate(net.p):
                r |= ((a[0] >> b) & 1) << i
        elif op == 'm':
            m = self.nl.mems[net.p]
            if m.rom is not None:
                r = m.rom(a[0])
            else:
                r = self.mems[net.p].get(a[0], self.default)
        else:
            raise HarnessError('refsim: op %r' % op)
        return r & mask(W[net.d[0]].width)

    def _eval_all(self, inputs):
        W = self.nl.wires
        v = {}
        for name, w in W.items():
            if w.kind == 'I':
                if name not in inputs:
                    raise HarnessError('refsim: missing input %s' % name)
                v[name] = inputs[name]
            elif w.kind == 'C':
                v[name] = w.val
            elif w.kind == 'R':
                v[name] = self.regs[name]
        onstack = set()
        for root in W:
            if root in v:
                continue
            stack = [root]
            while stack:
                name = stack[-1]
                if name in v:
                    stack.pop()
                    onstack.discard(name)
                    continue
                net = self.prod.get(name)
                if net is None:
                    raise HarnessError('refsim: undriven wire %s' % name)
                missing = [x for x in net.a if x not in v]
                if missing:
                    # every expanded-but-uncomputed wire is an ancestor of the top of stack
                    onstack.add(name)
                    for x in missing:
                        if x in onstack:
                            raise HarnessError('refsim: combinational loop at %s' % x)
                    stack.extend(missing)
                else:
                    v[name] = self._compute(net, v)
                    stack.pop()
                    onstack.discard(name)
        return v

    def step(self, inputs):
        v = self._eval_all(inputs)
        pending = {}
        for net in self.writes:
            addr, data, en = (v[x] for x in net.a)
            if en:
                k = (net.p, addr)
                if k in pending:
                    raise DoubleWrite()
                pending[k] = data
        for (key, addr), data in pending.items():
            self.mems[key][addr] = data
            self.touched[key].add(addr)
        for net in self.regnets:
            self.regs[net.d[0]] = v[net.a[0]] & mask(self.nl.wires[net.d[0]].width)
        self.values = v
        self.cycle += 1
        return v

    def force_regs(self, values):
        self.regs.update(values)
