"""VSim: an interpreter for exactly the Verilog subset output_to_verilog emits, and a reader
for the testbench subset output_verilog_testbench emits. (No iverilog/yosys in the sandbox.)

Expression evaluation follows IEEE 1364-2001 4.4/4.5: self-determined width of every
operand; context width = max(lhs width, rhs self-determined width); operands zero-extended
to the context width before + - * & | ^ ~ ?:; relational/equality operands sized to the
larger of the two, 1-bit result; concatenation operands self-determined; sized literals as
written; unsized decimal literals get width max(32, bits needed) -- the most permissive
legal reading. Non-blocking semantics: at a clock edge all right-hand sides are evaluated on
pre-edge values, then committed; continuous assigns are settled by demand-driven evaluation.
Anything outside the subset raises HarnessError (never a VIOLATION).
"""
import re

from .common import HarnessError, mask

TOKEN = re.compile(r"""
    (?P<ws>\s+|//[^\n]*) |
    (?P<sized>\d+\s*'\s*[sS]?[hHdDbBoO]\s*[0-9a-fA-F_xXzZ]+) |
    (?P<num>\d+) |
    (?P<id>[A-Za-z_][A-Za-z0-9_$]*) |
    (?P<op><=|==|\+\+|[-+*&|^~<>?:=(){}\[\],;@\#.])
""", re.X)


def tokenize(text):
    out = []
    pos = 0
    n = len(text)
    while pos < n:
        m = TOKEN.match(text, pos)
        if not m:
            raise HarnessError('vsim: cannot tokenize at %r' % text[pos:pos + 30])
        pos = m.end()
        k = m.lastgroup
        if k == 'ws':
            continue
        out.append((k, m.group(k)))
    out.append(('eof', ''))
    return out


class P(object):
    def __init__(self, toks):
        self.t = toks
        self.i = 0

    def peek(self, k=0):
        return self.t[self.i + k]

    def next(self):
        x = self.t[self.i]
        self.i += 1
        return x

    def accept(self, val):
        if self.t[self.i][1] == val and self.t[self.i][0] in ('op', 'id'):
            self.i += 1
            return True
        return False

    def expect(self, val):
        if not self.accept(val):
            raise HarnessError('vsim: expected %r, got %r' % (val, self.t[self.i]))

    def ident(self):
        k, v = self.next()
        if k != 'id':
            raise HarnessError('vsim: expected identifier, got %r' % (v,))
        return v

    # ---- expressions (precedence climbing) ---------------------------------------------
    def expr(self):
        c = self.bin(0)
        if self.accept('?'):
            t = self.expr()
            self.expect(':')
            f = self.expr()
            return ('?', c, t, f)
        return c

    LEVELS = [['|'], ['^'], ['&'], ['=='], ['<', '>'], ['+', '-'], ['*']]

    def bin(self, lvl):
        if lvl == len(self.LEVELS):
            return self.unary()
        left = self.bin(lvl + 1)
        while self.peek()[0] == 'op' and self.peek()[1] in self.LEVELS[lvl]:
            op = self.next()[1]
            right = self.bin(lvl + 1)
            left = ('bin', op, left, right)
        return left

    def unary(self):
        if self.accept('~'):
            return ('~', self.unary())
        return self.primary()

    def primary(self):
        k, v = self.peek()
        if k == 'sized':
            self.next()
            m = re.match(r"(\d+)\s*'\s*[sS]?([hHdDbBoO])\s*([0-9a-fA-F_]+)$", v)
            if not m:
                raise HarnessError('vsim: literal %r' % v)
            w = int(m.group(1))
            base = {'h': 16, 'd': 10, 'b': 2, 'o': 8}[m.group(2).lower()]
            val = int(m.group(3).replace('_', ''), base)
            return ('num', w, val & mask(w))
        if k == 'num':
            self.next()
            val = int(v)
            return ('num', max(32, val.bit_length()), val)
        if v == '(':
            self.next()
            e = self.expr()
            self.expect(')')
            return e
        if v == '{':
            self.next()
            parts = [self.expr()]
            while self.accept(','):
                parts.append(self.expr())
            self.expect('}')
            return ('cat', parts)
        if k == 'id':
            name = self.ident()
            if self.accept('['):
                ix = self.expr()
                self.expect(']')
                return ('idx', name, ix)
            return ('id', name)
        raise HarnessError('vsim: unexpected token %r' % (v,))

    def range(self):
        """optional [msb:0] -> width"""
        if self.accept('['):
            msb = int(self.next()[1])
            self.expect(':')
            lsb = int(self.next()[1])
            self.expect(']')
            return msb - lsb + 1
        return 1

    # ---- statements --------------------------------------------------------------------
    def statement(self):
        if self.accept('begin'):
            body = []
            while not self.accept('end'):
                body.append(self.statement())
            return ('block', body)
        if self.accept('if'):
            self.expect('(')
            c = self.expr()
            self.expect(')')
            t = self.statement()
            f = None
            if self.accept('else'):
                f = self.statement()
            return ('if', c, t, f)
        name = self.ident()
        ix = None
        if self.accept('['):
            ix = self.expr()
            self.expect(']')
        if self.accept('<='):
            kind = 'nb'
        else:
            self.expect('=')
            kind = 'b'
        e = self.expr()
        self.expect(';')
        return (kind, name, ix, e)


class VSim(object):
    def __init__(self, text):
        self.sig = {}        # name -> width
        self.kind = {}       # name -> input/output/reg/wire
        self.mem = {}        # name -> [word width, depth, dict]
        self.assigns = {}    # lhs name -> expr
        self.always = []     # (sensitivity list, statement)
        self.val = {}        # current values of inputs and regs
        self.ports = []
        self.memo = {}
        self._busy = set()
        self._parse(text)
        for name, k in self.kind.items():
            if k in ('reg', 'input'):
                self.val[name] = 0

    def _parse(self, text):
        p = P(tokenize(text))
        p.expect('module')
        self.modname = p.ident()
        p.expect('(')
        while not p.accept(')'):
            self.ports.append(p.ident())
            p.accept(',')
        p.expect(';')
        while not p.accept('endmodule'):
            k, v = p.peek()
            if v in ('input', 'output', 'wire', 'reg'):
                p.next()
                w = p.range()
                name = p.ident()
                if v == 'reg' and p.peek()[1] == '[':
                    depth = p.range()
                    self.mem[name] = [w, depth, {}]
                else:
                    if name in self.sig:
                        raise HarnessError('vsim: %s declared twice' % name)
                    self.sig[name] = w
                    self.kind[name] = v
                p.expect(';')
            elif v == 'assign':
                p.next()
                name = p.ident()
                p.expect('=')
                e = p.expr()
                p.expect(';')
                if name in self.assigns:
                    raise HarnessError('vsim: %s assigned twice' % name)
                self.assigns[name] = e
            elif v == 'initial':
                p.next()
                st = p.statement()
                self._exec_initial(st)
            elif v == 'always':
                p.next()
                p.expect('@')
                p.expect('(')
                sens = []
                while True:
                    p.expect('posedge')
                    sens.append(p.ident())
                    if not p.accept('or'):
                        break
                p.expect(')')
                st = p.statement()
                self.always.append((sens, st))
            else:
                raise HarnessError('vsim: unexpected %r in module body' % (v,))

    def _exec_initial(self, st):
        if st[0] == 'block':
            for s in st[1]:
                self._exec_initial(s)
        elif st[0] == 'b' and st[1] in self.mem and st[2] is not None:
            m = self.mem[st[1]]
            ix = self._eval(st[2], 32)
            ctx = max(m[0], self._sw(st[3]))
            m[2][ix] = self._eval(st[3], ctx) & mask(m[0])
        else:
            raise HarnessError('vsim: unsupported initial statement %r' % (st[0],))

    # ---- widths and evaluation -----------------------------------------------------------
    def _sw(self, e):
        t = e[0]
        if t == 'num':
            return e[1]
        if t == 'id':
            if e[1] not in self.sig:
                raise HarnessError('vsim: unknown signal %s' % e[1])
            return self.sig[e[1]]
        if t == 'idx':
            if e[1] in self.mem:
                return self.mem[e[1]][0]
            return 1
        if t == 'cat':
            return sum(self._sw(x) for x in e[1])
        if t == '~':
            return self._sw(e[1])
        if t == 'bin':
            if e[1] in ('<', '>', '=='):
                return 1
            return max(self._sw(e[2]), self._sw(e[3]))
        if t == '?':
            return max(self._sw(e[2]), self._sw(e[3]))
        raise HarnessError('vsim: sw %r' % (t,))

    def value(self, name):
        if name in self.val:
            return self.val[name]
        if name in self.memo:
            return self.memo[name]
        if name not in self.assigns:
            raise HarnessError('vsim: %s is never assigned' % name)
        if name in self._busy:
            raise HarnessError('vsim: combinational loop through %s' % name)
        self._busy.add(name)
        e = self.assigns[name]
        w = self.sig[name]
        ctx = max(w, self._sw(e))
        v = self._eval(e, ctx) & mask(w)
        self._busy.discard(name)
        self.memo[name] = v
        return v

    def _eval(self, e, ctx):
        t = e[0]
        m = mask(ctx)
        if t == 'num':
            return e[2] & m
        if t == 'id':
            return self.value(e[1]) & m
        if t == 'idx':
            ix = self._eval(e[2], self._sw(e[2]))
            if e[1] in self.mem:
                return self.mem[e[1]][2].get(ix, 0) & m
            return (self.value(e[1]) >> ix) & 1
        if t == 'cat':
            r = 0
            for x in e[1]:
                w = self._sw(x)
                r = (r << w) | (self._eval(x, w) & mask(w))
            return r & m
        if t == '~':
            return (~self._eval(e[1], ctx)) & m
        if t == 'bin':
            op = e[1]
            if op in ('<', '>', '=='):
                w = max(self._sw(e[2]), self._sw(e[3]))
                a, b = self._eval(e[2], w), self._eval(e[3], w)
                return int(a < b if op == '<' else (a > b if op == '>' else a == b))
            a, b = self._eval(e[2], ctx), self._eval(e[3], ctx)
            if op == '+':
                return (a + b) & m
            if op == '-':
                return (a - b) & m
            if op == '*':
                return (a * b) & m
            if op == '&':
                return a & b
            if op == '|':
                return a | b
            if op == '^':
                return a ^ b
        if t == '?':
            c = self._eval(e[1], self._sw(e[1]))
            return self._eval(e[2] if c else e[3], ctx)
        raise HarnessError('vsim: eval %r' % (t,))

    # ---- simulation ----------------------------------------------------------------------
    def _settle(self):
        self.memo = {}
        self._busy = set()

    def outputs(self):
        return {n: self.value(n) for n, k in self.kind.items() if k == 'output'}

    def _run_stmt(self, st, pending):
        if st[0] == 'block':
            for s in st[1]:
                self._run_stmt(s, pending)
        elif st[0] == 'if':
            c = self._eval(st[1], self._sw(st[1]))
            if c:
                self._run_stmt(st[2], pending)
            elif st[3] is not None:
                self._run_stmt(st[3], pending)
        elif st[0] == 'nb':
            name, ix, e = st[1], st[2], st[3]
            if name in self.mem:
                m = self.mem[name]
                a = self._eval(ix, self._sw(ix))
                ctx = max(m[0], self._sw(e))
                pending.append(('mem', name, a, self._eval(e, ctx) & mask(m[0])))
            else:
                w = self.sig[name]
                ctx = max(w, self._sw(e))
                pending.append(('reg', name, self._eval(e, ctx) & mask(w)))
        else:
            raise HarnessError('vsim: blocking assignment in always block')

    def _edge(self, signal):
        pending = []
        for sens, st in self.always:
            if signal in sens:
                self._run_stmt(st, pending)
        for p in pending:
            if p[0] == 'reg':
                self.val[p[1]] = p[2]
            else:
                self.mem[p[1]][2][p[2]] = p[3]

    def cycle(self, inputs):
        """Apply inputs, settle, sample the Outputs (pre-edge, like a PyRTL trace row), then
        take the positive clock edge."""
        for k, v in inputs.items():
            if self.kind.get(k) != 'input':
                raise HarnessError('vsim: %s is not an input' % k)
            self.val[k] = v & mask(self.sig[k])
        self._settle()
        outs = self.outputs()
        self._edge('clk')
        self._settle()
        return outs

    def posedge_rst(self):
        """A rising edge of rst with the clock still (asynchronous reset event)."""
        self.val['rst'] = 1
        self._settle()
        self._edge('rst')
        self._settle()

    def set_reg(self, name, v):
        if self.kind.get(name) != 'reg':
            raise HarnessError('vsim: %s is not a reg' % name)
        self.val[name] = v & mask(self.sig[name])

    def regs(self):
        return sorted(n for n, k in self.kind.items() if k == 'reg')

    def memory_names(self):
        return sorted(self.mem)

    def poke_mem(self, name, addr, v):
        self.mem[name][2][addr] = v & mask(self.mem[name][0])

    def memory_dict(self, name):
        return dict(self.mem[name][2])


# ---------------------------------------------------------------------------------------
# testbench reader
# ---------------------------------------------------------------------------------------

class Testbench(object):
    def __init__(self, text):
        self.reg_init = {}        # verilog reg name -> value
        self.mem_ops = []         # ('fill', mem, n, value) | ('set', mem, ix, value), in order
        self.cycles = []          # [{input verilog name: (width, value)}]
        self.decls = {}
        self.instance = None
        self.has_rst = False
        self.rst_value = None
        self._parse(text)

    def _parse(self, text):
        lines = [ln.strip() for ln in text.split('\n')]
        cur = {}
        in_initial = False
        seen_clk0 = False
        for ln in lines:
            if not ln or ln.startswith('//') or ln.startswith('`include'):
                continue
            if not in_initial:
                if ln == 'initial begin':
                    in_initial = True
                    continue
                m = re.match(r'^(reg|wire)(\[(\d+):0\])? (\S+);$', ln)
                if m:
                    self.decls[m.group(4)] = (m.group(1), int(m.group(3)) + 1 if m.group(3) else 1)
                    if m.group(4) == 'rst':
                        self.has_rst = True
                    continue
                m = re.match(r'^toplevel block\((.*)\);$', ln)
                if m:
                    self.instance = re.findall(r'\.(\S+?)\((\S+?)\)', m.group(1))
                    continue
                if ln in ('module tb();', 'integer tb_iter;', 'always', '#5 clk = ~clk;', 'endmodule'):
                    continue
                raise HarnessError('testbench: unexpected line %r' % ln)
            # inside the initial block
            if ln.startswith('$dumpfile') or ln == '$dumpvars;':
                continue
            if ln == 'clk = 0;':
                seen_clk0 = True
                continue
            if ln == 'rst = 0;' or ln == 'rst = 1;':
                self.rst_value = int(ln[6])
                continue
            m = re.match(r'^block\.(\S+?) = (\d+);$', ln)
            if m and '[' not in m.group(1):
                self.reg_init[m.group(1)] = int(m.group(2))
                continue
            m = re.match(r'^for \(tb_iter = 0; tb_iter < (\d+); tb_iter\+\+\) begin '
                         r'block\.(\S+?)\[tb_iter\] = (\d+); end$', ln)
            if m:
                self.mem_ops.append(('fill', m.group(2), int(m.group(1)), int(m.group(3))))
                continue
            m = re.match(r'^block\.(\S+?)\[(\d+)\] = (\d+);$', ln)
            if m:
                self.mem_ops.append(('set', m.group(1), int(m.group(2)), int(m.group(3))))
                continue
            m = re.match(r"^(\S+) = (\d+)'d(\d+);$", ln)
            if m:
                cur[m.group(1)] = (int(m.group(2)), int(m.group(3)))
                continue
            if ln == '#10':
                self.cycles.append(cur)
                cur = {}
                continue
            if ln == '$finish;':
                continue
            if ln == 'end':
                in_initial = False
                continue
            if ln == 'endmodule':
                continue
            raise HarnessError('testbench: unexpected line %r' % ln)
        if not seen_clk0:
            raise HarnessError('testbench: clk never initialised')
