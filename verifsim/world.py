"""Helpers shared by the property harnesses: world set-up from a recorded schedule, simulator
construction with per-replica copies of the initial state, foreign activity, fault steps."""
import io
import random

from . import common
from .common import HarnessError, Violation, mask
from .netlist import build, Netlist
from .refsim import RefSim

ITER_POLICIES = [None, None, 'lifo', 'fifo', 'random', 'random']


def gen_sched(streams, with_iter=True, noise=True):
    s = streams['sched']
    return {
        'hash_seed': streams.subseed('hash'),
        'perm_seed': s.getrandbits(32) if s.random() < 0.8 else None,
        'iter_policy': s.choice(ITER_POLICIES) if with_iter else None,
        'iter_seed': streams.subseed('iter'),
        'noise': s.choice([0, 0, 2, 5]) if noise else 0,
    }


def setup_world(sched):
    """Install the seams for this world. Must be the first thing a run does."""
    common.install_hash_seam(sched.get('hash_seed'))
    common.reset_world()


def teardown_world():
    common.iter_seam.uninstall()
    common.reset_world()


def build_dut(script, sched, stage=None):
    b = build(script, perm_seed=sched.get('perm_seed'), noise=sched.get('noise', 0), stage=stage)
    common.iter_seam.install(sched.get('iter_policy'), sched.get('iter_seed', 0))
    return b


def init_maps(built, init):
    """Fresh (un-aliased) register_value_map / memory_value_map for one simulator."""
    rmap = {built.wires[n]: v for n, v in init.get('regs', {}).items()}
    mmap = {}
    for k, d in init.get('mems', {}).items():
        mmap[built.mems[int(k)]] = {int(a): v for a, v in d.items()}
    return rmap, mmap


def ref_for(script, init):
    nl = Netlist.from_script(script)
    mem_init = {str(k): {int(a): v for a, v in d.items()} for k, d in init.get('mems', {}).items()}
    return RefSim(nl, dict(init.get('regs', {})), mem_init, init.get('default', 0))


def make_sim(kind, built, init, tracer_all=True, block=None):
    import pyrtl
    blk = block if block is not None else built.block
    rmap, mmap = init_maps(built, init)
    tr = pyrtl.SimulationTrace('all' if tracer_all else None, block=blk)
    dv = init.get('default', 0)
    kw = {'tracer': tr, 'block': blk}
    if rmap:
        kw['register_value_map'] = rmap      # otherwise: the constructor's own default argument
    if mmap:
        kw['memory_value_map'] = mmap
    if dv:
        kw['default_value'] = dv
    if kind == 'sim':
        return pyrtl.Simulation(**kw)
    if kind == 'fast':
        return pyrtl.FastSimulation(**kw)
    if kind == 'compiled':
        return pyrtl.CompiledSimulation(**kw)
    raise HarnessError('sim kind')


def foreign_activity(seed):
    """Another design is built in the global working block and simulated. Returns a digest
    of what it computed (it has its own tiny oracle: a counter)."""
    import pyrtl
    rng = random.Random(seed)
    old = pyrtl.working_block()
    fb = pyrtl.Block()
    with pyrtl.set_working_block(fb, no_sanity_check=True):
        w = rng.randint(2, 9)
        a = pyrtl.Input(w, 'fa')
        r = pyrtl.Register(w, 'fr')
        o = pyrtl.Output(w + 1, 'fo')
        r.next <<= r + 1
        with pyrtl.conditional_assignment:
            with a[0]:
                o |= a + r
            with pyrtl.otherwise:
                o |= r
        sim = pyrtl.Simulation(block=fb)
        vals = []
        for i in range(3):
            x = rng.getrandbits(w)
            sim.step({'fa': x})
            exp = ((x + i) if (x & 1) else i)
            if sim.inspect('fo') != exp:
                raise common.ForeignMismatch('fo=%r expected %r (a=%d cycle %d)'
                                             % (sim.inspect('fo'), exp, x, i))
            vals.append(sim.inspect('fo'))
    if pyrtl.working_block() is not old:
        raise HarnessError('foreign activity changed the working block')
    return vals


def foreign_shadow_sim(seed, name, width):
    """Another design, in another block, with an Input called `name` of another bitwidth is
    given its own simulator (of a seeded kind) and stepped: nothing it does may change what
    the simulators of the design under test accept or compute."""
    import pyrtl
    rng = random.Random(seed)
    old = pyrtl.working_block()
    fb = pyrtl.Block()
    w2 = width + rng.choice([3, 8]) if rng.random() < 0.7 or width == 1 else max(1, width - 1)
    with pyrtl.set_working_block(fb, no_sanity_check=True):
        a = pyrtl.Input(w2, name)
        o = pyrtl.Output(w2, 'shadow_out')
        o <<= a
    kind = rng.choice(['sim', 'fast', 'fast'])
    tr = pyrtl.SimulationTrace(block=fb)
    sim = pyrtl.Simulation(tracer=tr, block=fb) if kind == 'sim' else pyrtl.FastSimulation(tracer=tr, block=fb)
    v = (1 << w2) - 1
    sim.step({name: v})
    if sim.inspect('shadow_out') != v:
        raise common.ForeignMismatch('shadow design computed %r for %r' % (sim.inspect('shadow_out'), v))
    if pyrtl.working_block() is not old:
        raise HarnessError('foreign activity changed the working block')
    return sim     # kept alive by the caller: two simulators coexist


def bad_value(rng, width):
    r = rng.random()
    if r < 0.4:
        return -rng.randint(1, 3)
    if r < 0.7:
        return 1 << width
    return (1 << width) + rng.getrandbits(width + 2)


def gen_reject_faults(rng, script, ncycles, rate=0.5):
    faults = []
    ins = [(w['n'], w['w']) for w in script['wires'] if w['k'] == 'I']
    if not ins or rng.random() > rate:
        return faults
    for _ in range(rng.randint(1, 2)):
        n, w = rng.choice(ins)
        faults.append({'kind': 'reject_step', 'at': rng.randrange(ncycles), 'wire': n,
                       'value': bad_value(rng, w) if rng.random() < 0.75 else 'missing'})
    return faults


def tracelen(sim):
    """Length of the trace; -1 if the traced wires do not all have the same length (a trace
    whose columns disagree has no length)."""
    tr = sim.tracer
    lens = {len(tr.trace[k]) for k in tr.trace}
    if not lens:
        return 0
    if len(lens) > 1:
        return -1
    return lens.pop()


def apply_reject(sim, fault, cyc_inputs, label):
    """Offer an illegal step; return a Violation if it is not refused cleanly."""
    import pyrtl
    bad = dict(cyc_inputs)
    if fault['value'] == 'missing':
        # a step that gives one Input no value at all: pyrtl.Simulation refuses it up front with
        # PyrtlError ('has no input value specified'). FastSimulation has no such check (it
        # fails with KeyError wherever the value is first looked up -- in the generated code,
        # or only in the tracer after the state was committed when the input is read
        # conditionally) and CompiledSimulation accepts the step; a step without a value for an
        # Input is not a legal step under any property, so it is offered to Simulation only
        if type(sim).__name__ != 'Simulation':
            return None
        del bad[fault['wire']]
        before = tracelen(sim)
        try:
            sim.step(bad)
        except (pyrtl.PyrtlError, KeyError):
            if tracelen(sim) != before:
                return Violation('reject_step', 'trace_grew_on_rejected_step',
                                 {'sim': label, 'fault': fault}, [label, 'missing_input'])
            return None
        raise common.Inconclusive('step without a value for %s was simulated' % fault['wire'])
    if fault['value'] == 'rom_hole':
        # the stimulus makes a RomBlock without padding read an address it has no data for:
        # Simulation and FastSimulation refuse the step with PyrtlError from the middle of their
        # evaluation (CompiledSimulation is not built for such designs)
        before = tracelen(sim)
        # (a refusal from the middle of the evaluation leaves the wires evaluated before it at
        # their new values until the next step: inspect() is not compared on this simulator)
        sim._verif_midpass_refusal = True
        try:
            sim.step(dict(fault['inputs']))
        except pyrtl.PyrtlError:
            if tracelen(sim) != before:
                return Violation('reject_step', 'trace_grew_on_rejected_step',
                                 {'sim': label, 'fault': {'value': 'rom_hole'}}, [label, 'rom_hole'])
            return None
        raise common.Inconclusive('the reference model predicted a ROM hole the simulator did not hit')
    bad[fault['wire']] = fault['value']
    before = tracelen(sim)
    try:
        sim.step(bad)
    except pyrtl.PyrtlError:
        pass
    except Exception as e:
        return Violation('reject_step', 'wrong_exception',
                         {'sim': label, 'exc': repr(e)[:200], 'fault': fault}, [label])
    else:
        return Violation('reject_step', 'illegal_input_simulated',
                         {'sim': label, 'fault': fault}, [label])
    if tracelen(sim) != before:
        return Violation('reject_step', 'trace_grew_on_rejected_step',
                         {'sim': label, 'fault': fault}, [label])
    return observation_after_refusal(sim, label, before)


def observation_after_refusal(sim, label, ntrace):
    """The value was 'rejected rather than simulated': what inspect() reports afterwards is
    still the last traced cycle."""
    import pyrtl
    if ntrace <= 0 or getattr(sim, '_verif_midpass_refusal', False):
        return None
    # (not the Inputs themselves: pyrtl.Simulation validates and stores the offered values one
    # by one, so the Inputs listed before the refused one already show what was offered; no
    # property says what an Input reads between a refused step and the next one)
    inputs = {w.name for w in sim.block.wirevector_subset(pyrtl.Input)}
    for name in sorted(sim.tracer.trace):
        if name in inputs:
            continue
        try:
            got = sim.inspect(name)
        except (pyrtl.PyrtlError, KeyError):
            continue
        last = sim.tracer.trace[name][-1]
        if got != last:
            return Violation('reject_step', 'inspect_differs_from_trace_after_rejected_step',
                             {'sim': label, 'wire': name, 'inspect': got, 'last_trace_entry': last},
                             [label])
    return None


def width_class(w):
    if w == 1:
        return '1'
    if w <= 8:
        return 's'
    if w <= 30:
        return 'm'
    if w <= 33:
        return '32'
    if w <= 62:
        return 'm2'
    if w <= 65:
        return '64'
    if w <= 126:
        return 'm3'
    if w <= 130:
        return '128'
    return 'h'


def shape_probes(script, probes):
    wd = {w['n']: w for w in script['wires']}
    nat = {'+': lambda a: a[0] + 1, '-': lambda a: a[0] + 1, '*': lambda a: 2 * a[0],
           'c': lambda a: sum(a)}
    for n in script['nets']:
        op = n['op']
        aw = [wd[x]['w'] for x in n['a']]
        if not n['d']:
            probes.hit('op:@')
            continue
        dw = wd[n['d'][0]]['w']
        if op in nat:
            natural = nat[op](aw)
        elif op == 's':
            natural = len(n['p'])
        elif op in '<>=':
            natural = 1
        elif op == 'x':
            natural = aw[1]
        elif op == 'm':
            natural = dw
        else:
            natural = aw[0]
        t = 'T' if dw < natural else 'N'
        probes.hit('op:%s:%s:%s' % (op, width_class(max(aw + [dw])), t))
        if op == 's':
            p = n['p']
            if len(set(p)) < len(p):
                probes.hit('sel_repeat')
            if any(p[i] > p[i + 1] for i in range(len(p) - 1)):
                probes.hit('sel_reversed')
        if op == 'c' and len(n['a']) >= 3:
            probes.hit('concat3+')
    for m in script['mems']:
        probes.hit('rom:%s' % m['rom']['kind'] if m.get('rom') else 'mem')
        if m['aw'] > 64:
            probes.hit('mem_aw>64')
    for w in script['wires']:
        if w['k'] == 'R':
            probes.hit('reg_rv_none' if w.get('rv') is None else 'reg_rv')


class FaultyWriter(io.StringIO):
    """A text file whose k-th write raises OSError (the export 'crash point')."""

    def __init__(self, fail_at):
        super().__init__()
        self.fail_at = fail_at
        self.nwrites = 0

    def write(self, s):
        if self.fail_at is not None and self.nwrites == self.fail_at:
            self.nwrites += 1
            raise OSError(28, 'injected: no space left on device')
        self.nwrites += 1
        return super().write(s)


def stage_with_hook(stage, res):
    """The build-time stage argument for a case's 'stage' entry: after the original design is
    complete somebody uses it -- simulates a cycle, exports it, analyses it, asks for an
    optimized copy -- and only then is the rest added to the same Block. What PyRTL remembers
    about the Block from that first use must not leak into what it does afterwards."""
    if not stage:
        return None
    import io
    import pyrtl
    from . import transforms
    use = stage.get('use', 'export')

    def hook(built):
        blk = built.block
        try:
            with transforms.quiet():
                with pyrtl.set_working_block(blk, no_sanity_check=True):
                    if use in ('sim', 'fast', 'compiled'):
                        cls = {'sim': pyrtl.Simulation, 'fast': pyrtl.FastSimulation,
                               'compiled': pyrtl.CompiledSimulation}[use]
                        sim = cls(tracer=pyrtl.SimulationTrace('all', block=blk), block=blk)
                        sim.step({w.name: 0 for w in blk.wirevector_subset(pyrtl.Input)})
                    elif use == 'export':
                        pyrtl.output_to_verilog(io.StringIO(), block=blk)
                    elif use == 'analysis':
                        pyrtl.TimingAnalysis(block=blk).max_length()
                        for w in list(blk.wirevector_set)[:20]:
                            if not isinstance(w, pyrtl.Output):
                                pyrtl.fanout(w)
                        str(blk)
                    elif use == 'optimized_copy':
                        pyrtl.optimize(update_working_block=False, block=blk)
                    elif use == 'copy':
                        pyrtl.copy_block(blk, update_working_block=False)
                    elif use == 'reset':
                        # the user starts another design in between and comes back to this one
                        pyrtl.reset_working_block()
                        m = pyrtl.MemBlock(4, 2, name='elsewhere')
                        o = pyrtl.Output(4, 'elsewhere_o')
                        o <<= m[pyrtl.Input(2, 'elsewhere_a')]
                        pyrtl.Simulation().step({'elsewhere_a': 1})
                    else:
                        raise HarnessError('stage use %r' % use)
            res.faults.hit('used_before_extension:' + use)
        except (pyrtl.PyrtlError, pyrtl.PyrtlInternalError):
            res.probes.hit('early_use_refused:' + use)
    return dict(stage, hook=hook)
