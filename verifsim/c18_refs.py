"""Reference implementations for C18, written from the published specifications only.

* AES-128 (FIPS-197): S-box computed from the multiplicative inverse in GF(2^8) modulo
  x^8+x^4+x^3+x+1 followed by the affine map; key expansion; Cipher; InvCipher.
  Blocks and keys are 128-bit integers, byte 0 of FIPS-197 (in0 / k0) is the MOST significant
  byte (the usual way of writing the Appendix vectors as one hex number).
* 127-bit Fibonacci LFSR: new bit = s[126] ^ s[125], shifted in at the LSB.
* xoroshiro128+ (the 2016 constants 55/14/36 -- the ones rtllib implements and names by
  linking http://xoroshiro.di.unimi.it/ as of 2016-2017; `result = s0 + s1`).
* Trivium (De Canniere & Preneel): bit-serial, 288-bit state s1..s288, 4*288 blank rounds.
  Bit-order convention of rtllib.prngs.csprng_trivium (docstring: "key = seed[80:], iv =
  seed[:80]"; "earliest bit is stored at the MSB" for the key stream): K_i = bit (i-1) of the
  key integer, IV_i = bit (i-1) of the IV integer; the first key-stream bit is the MSB of the
  returned number. The convention is anchored by `selftest()` on the five eSCARGOt vectors
  the repo's own test uses at bits_per_cycle=64.

Nothing in here imports pyrtl.
"""

M64 = (1 << 64) - 1
M127 = (1 << 127) - 1


# ---------------------------------------------------------------------------------------
# AES-128
# ---------------------------------------------------------------------------------------

def gf_mul(a, b):
    r = 0
    while b:
        if b & 1:
            r ^= a
        a <<= 1
        if a & 0x100:
            a ^= 0x11b
        b >>= 1
    return r


def _gf_inv(a):
    if a == 0:
        return 0
    # a^254
    r = 1
    p = a
    e = 254
    while e:
        if e & 1:
            r = gf_mul(r, p)
        p = gf_mul(p, p)
        e >>= 1
    return r


def _affine(b):
    out = 0
    for i in range(8):
        bit = ((b >> i) ^ (b >> ((i + 4) % 8)) ^ (b >> ((i + 5) % 8)) ^ (b >> ((i + 6) % 8))
               ^ (b >> ((i + 7) % 8)) ^ (0x63 >> i)) & 1
        out |= bit << i
    return out


SBOX = [_affine(_gf_inv(x)) for x in range(256)]
INV_SBOX = [0] * 256
for _i, _v in enumerate(SBOX):
    INV_SBOX[_v] = _i


def _to_bytes(x):
    return [(x >> (8 * (15 - i))) & 0xff for i in range(16)]


def _from_bytes(bs):
    x = 0
    for b in bs:
        x = (x << 8) | b
    return x


def aes_key_expansion(key):
    """-> 11 round keys, each a list of 16 bytes (column-major like the state)."""
    kb = _to_bytes(key)
    w = [kb[4 * i:4 * i + 4] for i in range(4)]
    rc = 1
    for i in range(4, 44):
        t = list(w[i - 1])
        if i % 4 == 0:
            t = t[1:] + t[:1]
            t = [SBOX[b] for b in t]
            t[0] ^= rc
            rc = gf_mul(rc, 2)
        w.append([w[i - 4][j] ^ t[j] for j in range(4)])
    return [sum((w[4 * r + c] for c in range(4)), []) for r in range(11)]


# state: list of 16 bytes, s[r][c] = st[4*c + r]

def _sub(st, box):
    return [box[b] for b in st]


def _shift_rows(st):
    return [st[4 * ((c + r) % 4) + r] for c in range(4) for r in range(4)]


def _inv_shift_rows(st):
    return [st[4 * ((c - r) % 4) + r] for c in range(4) for r in range(4)]


def _mix(st, coef):
    out = []
    for c in range(4):
        col = st[4 * c:4 * c + 4]
        for r in range(4):
            v = 0
            for k in range(4):
                v ^= gf_mul(coef[(k - r) % 4], col[k])
            out.append(v)
    return out


def _ark(st, rk):
    return [a ^ b for a, b in zip(st, rk)]


def aes_encrypt(block, key):
    rks = aes_key_expansion(key)
    st = _ark(_to_bytes(block), rks[0])
    for rnd in range(1, 11):
        st = _shift_rows(_sub(st, SBOX))
        if rnd != 10:
            st = _mix(st, [2, 3, 1, 1])
        st = _ark(st, rks[rnd])
    return _from_bytes(st)


def aes_decrypt(block, key):
    rks = aes_key_expansion(key)
    st = _ark(_to_bytes(block), rks[10])
    for rnd in range(9, -1, -1):
        st = _sub(_inv_shift_rows(st), INV_SBOX)
        st = _ark(st, rks[rnd])
        if rnd != 0:
            st = _mix(st, [14, 11, 13, 9])
    return _from_bytes(st)


FIPS_VECTORS = [
    # (key, plaintext, ciphertext)
    (0x2b7e151628aed2a6abf7158809cf4f3c, 0x3243f6a8885a308d313198a2e0370734,
     0x3925841d02dc09fbdc118597196a0b32),                                   # Appendix B
    (0x000102030405060708090a0b0c0d0e0f, 0x00112233445566778899aabbccddeeff,
     0x69c4e0d86a7b0430d8cdb78070b4c55a),                                   # Appendix C.1
    (0x2b7e151628aed2a6abf7158809cf4f3c, 0x6bc1bee22e409f96e93d7e117393172a,
     0x3ad77bb40d7a3660a89ecaf32466ef97),                                   # SP 800-38A ECB
    (0x0, 0x0, 0x66e94bd4ef8a2c3b884cfa59ca342b2e),
]


# ---------------------------------------------------------------------------------------
# PRNG streams. Every stream object offers take(nbits) -> int with the earliest bit at the MSB
# (for xoroshiro: take_words(n) -> list of 64-bit words).
# ---------------------------------------------------------------------------------------

class LfsrStream(object):
    """127-bit Fibonacci LFSR, feedback = bit126 ^ bit125, shifted in at bit 0."""

    def __init__(self, seed):
        self.s = seed & M127

    def bit(self):
        b = ((self.s >> 126) ^ (self.s >> 125)) & 1
        self.s = ((self.s << 1) | b) & M127
        return b

    def take(self, n):
        v = 0
        for _ in range(n):
            v = (v << 1) | self.bit()
        return v


def _rotl64(x, k):
    return ((x << k) | (x >> (64 - k))) & M64


class XoroshiroStream(object):
    """xoroshiro128+ (2016 parameters a=55, b=14, c=36); s[0] = low 64 seed bits."""

    def __init__(self, seed):
        self.s0 = seed & M64
        self.s1 = (seed >> 64) & M64

    def word(self):
        s0, s1 = self.s0, self.s1
        r = (s0 + s1) & M64
        s1 ^= s0
        self.s0 = _rotl64(s0, 55) ^ s1 ^ ((s1 << 14) & M64)
        self.s1 = _rotl64(s1, 36)
        return r

    def take_request(self, bitwidth):
        """One request of `bitwidth` bits: ceil(bw/64) words, earliest word most significant,
        the MSBs of the concatenation are returned (docstring of prng_xoroshiro128)."""
        n = -(-bitwidth // 64)
        v = 0
        for _ in range(n):
            v = (v << 64) | self.word()
        return v >> (n * 64 - bitwidth)


class TriviumStream(object):
    """Bit-serial Trivium. s[i] holds s_{i+1} of the specification."""

    def __init__(self, key, iv, warmup=True):
        s = [0] * 288
        for i in range(80):
            s[i] = (key >> i) & 1
            s[93 + i] = (iv >> i) & 1
        s[285] = s[286] = s[287] = 1
        self.s = s
        if warmup:
            for _ in range(4 * 288):
                self.bit()

    def bit(self):
        s = self.s
        t1 = s[65] ^ s[92]
        t2 = s[161] ^ s[176]
        t3 = s[242] ^ s[287]
        z = t1 ^ t2 ^ t3
        t1 ^= (s[90] & s[91]) ^ s[170]
        t2 ^= (s[174] & s[175]) ^ s[263]
        t3 ^= (s[285] & s[286]) ^ s[68]
        self.s = [t3] + s[0:92] + [t1] + s[93:176] + [t2] + s[177:287]
        return z

    def take(self, n):
        v = 0
        for _ in range(n):
            v = (v << 1) | self.bit()
        return v

    def take_request(self, bitwidth, bits_per_cycle):
        """One request: the generator runs ceil(bw/bpc) cycles of bpc bits each; the result
        register is `bitwidth` wide and shifts the stream in at its LSB end, so it ends up
        holding the LAST `bitwidth` bits of the consumed chunk (the surplus at the start of
        the chunk is dropped when bpc does not divide bitwidth)."""
        n = -(-bitwidth // bits_per_cycle) * bits_per_cycle
        v = self.take(n)
        return v & ((1 << bitwidth) - 1)


TRIVIUM_VECTORS = [
    # (160-bit seed = key<<80 | iv, first 128 key-stream bits) -- eSCARGOt datasheet vectors in
    # the bit order of rtllib (as quoted by tests/rtllib/test_prngs.py)
    (0x0100000000000000000000000000000000000000, 0x1cd761ffceb05e39f5b18f5c22042ab0),
    (0x0a09080706050403020100000000000000000000, 0x372e6b86524afa71b5fee86d5cebb07d),
    (0xfffefdfcfbfaf9f8f7f600000000000000000000, 0xc100baca274287277ff49b9fb512af1c),
    (0xfaa75401ae5b08b5620fc760f9922bc45df68f28, 0xcb5996fcff373a953fc169e899e02f46),
    (0xf5a24ffca95603b05d0abe57f08922bb54ed861f, 0xf142d1df4b36c7652cba2e4a22ee51a0),
]


def trivium_from_seed(seed):
    return TriviumStream((seed >> 80) & ((1 << 80) - 1), seed & ((1 << 80) - 1))


_selftested = []


def selftest():
    """Raises AssertionError if a reference does not reproduce its published vectors."""
    if _selftested:
        return
    assert SBOX[0x00] == 0x63 and SBOX[0x53] == 0xed and SBOX[0xff] == 0x16   # FIPS-197 fig. 7
    for key, pt, ct in FIPS_VECTORS:
        assert aes_encrypt(pt, key) == ct, 'AES encrypt reference'
        assert aes_decrypt(ct, key) == pt, 'AES decrypt reference'
    # FIPS-197 Appendix A.1: last round-key word of the 2b7e... key is b6630ca6
    assert aes_key_expansion(0x2b7e151628aed2a6abf7158809cf4f3c)[10][12:] == [0xb6, 0x63, 0x0c, 0xa6]
    # xoroshiro128+ 2016: from s = {1, 2}: outputs 3, then state evolves by the recurrence
    x = XoroshiroStream((2 << 64) | 1)
    assert x.word() == 3
    # s1^=s0 -> 3 ; s0 = rotl(1,55) ^ 3 ^ (3<<14) ; s1 = rotl(3,36)
    assert x.s0 == ((1 << 55) ^ 3 ^ (3 << 14)) and x.s1 == (3 << 36)
    # LFSR: a single one at bit 125 feeds back twice (as bit 125, then as bit 126)
    l = LfsrStream(1 << 125)
    assert l.take(3) == 0b110 and l.s == 0b110
    for seed, out in TRIVIUM_VECTORS:
        assert trivium_from_seed(seed).take(128) == out, 'Trivium reference vs published vectors'
    _selftested.append(True)
