"""Helpers for the transformation properties (C03 C04 C09 C11 C20): run a block's abstract
netlist in RefSim, compare Output traces, structural fingerprints."""
import contextlib
import io

from .common import HarnessError, Violation, mask
from .netlist import Netlist
from .refsim import RefSim, DoubleWrite
from .replica import Live


def ref_trace(nl, init, tape, outputs=None, watch=None):
    """Run RefSim; return (list of {name: value} for Outputs (+watch), cycles completed,
    final memories). Stops (without error) at a documented-undefined double write."""
    mem_init = {k: {int(a): v for a, v in d.items()} for k, d in init.get('mems', {}).items()}
    ref = RefSim(nl, dict(init.get('regs', {})), mem_init, init.get('default', 0))
    outs = outputs if outputs is not None else nl.outputs()
    names = list(outs) + list(watch or [])
    rows = []
    for cyc in tape:
        try:
            v = ref.step(cyc)
        except DoubleWrite:
            break
        rows.append({n: v[n] for n in names})
    return rows, len(rows), ref


def block_netlist(block):
    live = Live.from_block(block)
    return Netlist.from_block(block, live.memkey()), live


def quiet():
    return contextlib.redirect_stdout(io.StringIO())


def fingerprint(block):
    """Structural fingerprint: everything a pass could disturb, by value (names, widths,
    types, attributes), independent of set order."""
    import pyrtl
    wires = []
    for w in block.wirevector_set:
        wires.append((w.name, type(w).__name__, w.bitwidth, getattr(w, 'val', None),
                      getattr(w, 'reset_value', None)))
    nets = []
    mems = {}
    ports = {}      # the port lists a MemBlock object keeps of itself (analysis reads them)
    for net in block.logic:
        p = net.op_param
        if net.op in 'm@':
            m = net.op_param[1]
            p = ('mem', m.id, m.name)
            if id(m) not in mems:
                rom = None
                if isinstance(m, pyrtl.RomBlock):
                    try:
                        rom = tuple(m._get_read_data(a) for a in range(min(1 << m.addrwidth, 64)))
                    except pyrtl.PyrtlError:
                        rom = 'partial'
                mems[id(m)] = (m.name, m.id, m.bitwidth, m.addrwidth, m.asynchronous,
                               type(m).__name__, rom, getattr(m, 'pad_with_zeros', None))
                ports[id(m)] = (m.name, m.id, len(m.readport_nets), len(m.writeport_nets))
        nets.append((net.op, repr(p), tuple(a.name for a in net.args),
                     tuple(d.name for d in net.dests)))
    byname = sorted((k, v.name) for k, v in block.wirevector_by_name.items())
    memnames = sorted(block.memblock_by_name)
    return (sorted(wires, key=repr), sorted(nets, key=repr), sorted(mems.values(), key=repr),
            byname, memnames, sorted(block.legal_ops),
            sorted(w.name for w in block.rtl_assert_dict), sorted(ports.values(), key=repr))


def io_signature(block):
    import pyrtl
    return (sorted((w.name, w.bitwidth) for w in block.wirevector_subset(pyrtl.Input)),
            sorted((w.name, w.bitwidth) for w in block.wirevector_subset(pyrtl.Output)))


def sanity(block):
    """-> None or the exception text of block.sanity_check()."""
    import pyrtl
    try:
        block.sanity_check()
        # sanity_check does not look for combinational loops; iterating the block does
        for _net in block:
            pass
    except (pyrtl.PyrtlError, pyrtl.PyrtlInternalError) as e:
        return repr(e)[:300]
    return None


def compare_rows(rows_a, rows_b, names, n=None):
    """First (cycle, name, a, b) where the traces differ, or None."""
    k = min(len(rows_a), len(rows_b)) if n is None else n
    for c in range(k):
        for name in names:
            if rows_a[c][name] != rows_b[c][name]:
                return c, name, rows_a[c][name], rows_b[c][name]
    return None
