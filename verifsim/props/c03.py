"""C03 -- synthesize() preserves behaviour and the simulation interface.

World: one word-level design (all ops, widths 1..8, registers with reset values, memories
with initial contents, ROMs); synthesize with merge_io_vectors x update_working_block, the
working block being the design or an unrelated block. Schedule: hash seed (synthesize
visits block.logic / wirevector_subset() in set order), statement permutation.
Oracles: (1) structure -- only 1-bit gates/registers, legal op set, c/s only where the
docstring allows; (2) io_map/reg_map/mem_map keyed by the *original* objects; (3) behaviour
-- RefSim(original) == RefSim(result) from reset and from explicit initial state; (4) the
unchanged testbench on pyrtl.Simulation(block=result) (inputs by name or via io_map,
register state via reg_map, memory_value_map keyed by the original MemBlock) reproduces
RefSim(original) per cycle.
"""
import copy
import hashlib

from .. import gen, shrink, world, transforms, common
from ..common import Violation, HarnessError, mask
from ..netlist import Netlist, script_shape
from ..replica import Live

ID = 'C03'
LEVEL = 'exploration'
RUN_TIMEOUT_S = 90.0
MIN_BUDGET = 200

TIERS = {
    'quick': {'runs': 16000, 'classes': 8, 'budget_s': 60},
    'thorough': {'runs': 400000, 'classes': 32, 'budget_s': 1100},
}

COMPONENTS = {'real': ['pyrtl.synthesize', 'copy_block/clone_wire', '_basic_* generators',
                       'pyrtl.Simulation on the PostSynthBlock (testbench clause)'],
              'stub': ['RefSim on both sides for behavioural equivalence']}


def gen_case(streams, tier):
    g = streams['gen']
    classes = g.choice([['bit', 'small'], ['small'], ['bit', 'small'], ['small', 'mid']])
    cfg = gen.make_cfg(nets=(2, 10), classes=classes, max_mul_width=6, mem_wide_aw=0.0,
                       mem_aw=(1, 4), rom_aw_max=3, regs=(0, 3), mems=(0, 2), roms=(0, 1),
                       max_concat=24, class_pool=['bit', 'small'], write_only_mem_prob=0.2,
                       dup_mem_name_prob=0.3)
    if 'mid' in classes:
        cfg['ops'] = 'w~&|^n+-<>=xcs'     # no multiplier at 9..24 bits: O(n^2) nets
    script = gen.gen_script(g, cfg)
    ncyc = streams['inputs'].randint(2, 8)
    init = gen.gen_init(g, script, allow_default=False)
    mode = g.choice(['reset', 'init'])
    if mode == 'reset':
        init['regs'] = {}
    return {
        'prop': ID, 'script': script, 'init': init, 'mode': mode,
        'cycles': gen.gen_inputs(streams['inputs'], script, ncyc),
        'merge': g.random() < 0.5, 'update_wb': g.random() < 0.5,
        'wb': g.choice(['dut', 'other', 'dut_implicit']),
        'sched': world.gen_sched(streams, with_iter=False),
        'refused_first': g.random() < 0.25,
        # the user narrowed the design's legal_ops to the primitives it uses
        'narrow_legal_ops': g.random() < 0.2,
        'again': [[g.random() < 0.5, g.random() < 0.5, g.choice(['dut', 'other', 'dut_implicit'])]
                  for _ in range(g.choice([0, 0, 0, 1, 1, 2]))],
    }


def _bits(val, n):
    return [(val >> i) & 1 for i in range(n)]


def run(case, res):
    import pyrtl
    script = case['script']
    sched = case['sched']
    world.setup_world(sched)
    b = world.build_dut(script, sched)
    if case.get('narrow_legal_ops'):
        b.block.legal_ops = set(n.op for n in b.block.logic)
        res.probes.hit('legal_ops_narrowed')
    # one memory_value_map object, keyed by the original MemBlocks, handed to every Simulation
    b.shared_mmap = {b.mems[int(k)]: {int(a): v for a, v in d.items()}
                     for k, d in case['init'].get('mems', {}).items()}
    v = _sitting(case, res, b, case['merge'], case['update_wb'], case['wb'], 0)
    if v is not None:
        return v
    # the same design object (same wires, same MemBlocks) is synthesized again, under other
    # settings: synthesize reads its source, so every sitting must stand on its own
    for k, (merge, update_wb, wb) in enumerate(case.get('again', [])):
        v = _sitting(case, res, b, merge, update_wb, wb, k + 1)
        if v is not None:
            return v
        res.probes.hit('synthesized_again')
    return None


def _sitting(case, res, b, merge, update_wb, wb, sitting):
    import pyrtl
    script = case['script']
    init = case['init']
    orig = b.block
    other = pyrtl.Block()
    if wb == 'other':
        pyrtl.set_working_block(other, no_sanity_check=True)
    else:
        pyrtl.set_working_block(orig, no_sanity_check=True)
    if sitting == 0 and case.get('refused_first'):
        # synthesize is first asked for a malformed design (a declared wire connected to
        # nothing) and refuses; the caller goes on in the working block he had
        bad = pyrtl.Block()
        pyrtl.WireVector(3, 'dangling', block=bad)
        for kw in ({'block': bad}, {'block': bad, 'update_working_block': False}):
            try:
                pyrtl.synthesize(**kw)
            except (pyrtl.PyrtlError, pyrtl.PyrtlInternalError):
                res.faults.hit('synthesize_refused_first')
            else:
                raise common.Inconclusive('synthesize accepted a malformed design')
    wb_before = pyrtl.working_block()
    tags0 = ['merge' if merge else 'unmerged'] + (['sitting:again'] if sitting else [])
    if any(not m.get('rom') for m in script['mems']):
        tags0.append('has_mem')
    if script['mems']:
        tags0.append('has_mem_or_rom')
    try:
        if wb == 'dut_implicit':
            syn = pyrtl.synthesize(update_working_block=update_wb,
                                   merge_io_vectors=merge)
        else:
            syn = pyrtl.synthesize(update_working_block=update_wb,
                                   merge_io_vectors=merge, block=orig)
    except Exception as e:
        return Violation('synthesize', 'raises_on_valid_design', {'exc': repr(e)[:300]}, tags0)
    res.log.log('pass', 'synthesize', [merge, update_wb, wb], len(syn.logic))
    res.probes.hit('merge' if merge else 'unmerged')
    wb_after = pyrtl.working_block()
    if update_wb:
        if wb_after is not syn:
            return Violation('working_block', 'not_updated', {}, tags0)
    elif wb_after is not wb_before:
        return Violation('working_block', 'changed_despite_update_false', {}, tags0)
    s = transforms.sanity(syn)
    if s:
        return Violation('structure', 'result_not_well_formed', {'exc': s}, tags0)
    # ---- (1) structure ------------------------------------------------------------------
    has_io_vec_or_mem = merge or bool(script['mems'])
    for net in syn.logic:
        if net.op not in '~&|^nrwm@cs':
            return Violation('structure', 'illegal_op', {'op': net.op}, tags0)
        if net.op in '&|^~n':
            ws = [w.bitwidth for w in net.args + net.dests]
            if any(x != 1 for x in ws):
                return Violation('structure', 'multi_bit_gate', {'op': net.op, 'widths': ws}, tags0)
        if net.op in 'cs' and not has_io_vec_or_mem:
            return Violation('structure', 'concat_or_select_without_io_or_memory',
                             {'op': net.op}, tags0)
    for r in syn.wirevector_subset(pyrtl.Register):
        if r.bitwidth != 1:
            return Violation('structure', 'multi_bit_register', {'reg': r.name}, tags0)
    # ---- (2) maps -----------------------------------------------------------------------
    def same_ids(keys, objs):
        return sorted(id(k) for k in keys) == sorted(id(o) for o in objs)
    ios = [w for w in orig.wirevector_set if isinstance(w, (pyrtl.Input, pyrtl.Output))]
    regs = [w for w in orig.wirevector_set if isinstance(w, pyrtl.Register)]
    used_mems = []
    for net in orig.logic:
        if net.op in 'm@' and not any(m is net.op_param[1] for m in used_mems):
            used_mems.append(net.op_param[1])
    if not same_ids(syn.io_map.keys(), ios):
        return Violation('maps', 'io_map_keys_not_original_io', {}, tags0)
    if not same_ids(syn.reg_map.keys(), regs):
        return Violation('maps', 'reg_map_keys_not_original_registers', {}, tags0)
    if not same_ids(syn.mem_map.keys(), used_mems):
        return Violation('maps', 'mem_map_keys_not_original_memories',
                         {'keys': [getattr(k, 'name', '?') for k in syn.mem_map],
                          'orig_key_found': [any(k is m for k in syn.mem_map) for m in used_mems]},
                         tags0 + ['mem_map'])
    for m in used_mems:
        for k, v in syn.mem_map.items():
            if k is m and (v.id != m.id or v.bitwidth != m.bitwidth or v.addrwidth != m.addrwidth
                           or type(v) is not type(m) or v.name != m.name):
                return Violation('maps', 'mem_map_pairs_memory_with_another_memory',
                                 {'original': m.name, 'mapped_to': v.name}, tags0 + ['mem_map'])
    for w in ios:
        lst = syn.io_map[w]
        want = 1 if merge else w.bitwidth
        if len(lst) != want or any(x not in syn.wirevector_set for x in lst):
            return Violation('maps', 'io_map_values', {'wire': w.name, 'n': len(lst)}, tags0)
    for r in regs:
        if len(syn.reg_map[r]) != r.bitwidth:
            return Violation('maps', 'reg_map_values', {'reg': r.name}, tags0)
        # "started from the same register reset values": bit i of the original's reset value,
        # and no reset value where the original has none (the simulator's default_value then
        # decides for both alike)
        for i, w in enumerate(syn.reg_map[r]):
            want = None if r.reset_value is None else (r.reset_value >> i) & 1
            if w.reset_value != want:
                return Violation('maps', 'register_bit_reset_value',
                                 {'reg': r.name, 'bit': i, 'original_reset': r.reset_value,
                                  'bit_reset': w.reset_value}, tags0 + ['reset_value'])
    # ---- behaviour ----------------------------------------------------------------------
    nl_o = Netlist.from_script(script)
    tape = case['cycles']
    rows_o, n_ok, _ = transforms.ref_trace(nl_o, init, tape)
    if n_ok == 0:
        return None
    tape = tape[:n_ok]
    outs = nl_o.outputs()
    # translate the stimulus and state through the maps (what a user's testbench does)
    by_name = orig.wirevector_by_name
    if merge:
        tape_s = tape
    else:
        tape_s = []
        for cyc in tape:
            d = {}
            for name, val in cyc.items():
                lst = syn.io_map[by_name[name]]
                for i, w in enumerate(lst):
                    d[w.name] = (val >> i) & 1
            tape_s.append(d)
    regs_s = {}
    for name, val in init.get('regs', {}).items():
        for i, w in enumerate(syn.reg_map[by_name[name]]):
            regs_s[w.name] = (val >> i) & 1
    mems_s = {}
    for k, d in init.get('mems', {}).items():
        mems_s[str(b.mems[int(k)].id)] = d
    init_s = {'regs': regs_s, 'mems': mems_s, 'default': 0}

    def collect(row_getter):
        rows = []
        for c in range(len(tape)):
            r = {}
            for o in outs:
                lst = syn.io_map[by_name[o]]
                if merge:
                    r[o] = row_getter(c, lst[0].name)
                else:
                    r[o] = sum(row_getter(c, w.name) << i for i, w in enumerate(lst))
            rows.append(r)
        return rows

    # (3) RefSim on both sides
    nl_s, live_s = transforms.block_netlist(syn)
    rows_s_raw, n_s, _ = transforms.ref_trace(nl_s, init_s, tape_s)
    if n_s < len(tape):
        raise HarnessError('synthesized block double-writes where the original does not')
    rows_s = collect(lambda c, n: rows_s_raw[c][n])
    d = transforms.compare_rows(rows_o, rows_s, outs)
    if d:
        c, name, a, bb = d
        tags = list(tags0) + _cause_tags(script, case, name)
        return Violation('behaviour', 'value_mismatch',
                         {'output': name, 'cycle': c, 'original': a, 'synthesized': bb,
                          'mode': case['mode']}, tags)
    res.cycles += len(tape)
    # (4) the unchanged testbench on pyrtl.Simulation
    rmap = {}
    for name, val in init.get('regs', {}).items():
        for i, w in enumerate(syn.reg_map[by_name[name]]):
            rmap[w] = (val >> i) & 1
    # the outer dict object is the user's own and is reused from sitting to sitting; the inner
    # images are refreshed, because pyrtl.Simulation uses them as its storage (documented or
    # not, that is how every PyRTL simulation treats memory_value_map)
    mmap = b.shared_mmap
    for k, d in init.get('mems', {}).items():
        mmap[b.mems[int(k)]] = {int(a): v for a, v in d.items()}
    try:
        sim = pyrtl.Simulation(tracer=pyrtl.SimulationTrace(block=syn), register_value_map=rmap,
                               memory_value_map=mmap, block=syn)
        for cyc in tape_s:
            sim.step(dict(cyc))
    except Exception as e:
        return Violation('testbench', 'original_testbench_fails_on_result',
                         {'exc': repr(e)[:300]}, tags0 + (['mem_init'] if mmap else []))
    rows_t = collect(lambda c, n: sim.tracer.trace[n][c])
    d = transforms.compare_rows(rows_o, rows_t, outs)
    if d:
        c, name, a, bb = d
        return Violation('testbench', 'value_mismatch',
                         {'output': name, 'cycle': c, 'original': a, 'simulated': bb}, tags0)
    res.shape = hashlib.sha1(script_shape(script).encode()).hexdigest()[:12]
    res.sched = hashlib.sha1(repr(sorted(str(n) for n in syn.logic)[:200]).encode()).hexdigest()[:12]
    world.shape_probes(script, res.probes)
    if any(w.get('rv') for w in script['wires'] if w['k'] == 'R') and case['mode'] == 'reset':
        res.probes.hit('nonzero_reset_from_reset')
    if mmap:
        res.probes.hit('mem_init_through_original_memblock')
    res.nontrivial = True
    return None


def _cause_tags(script, case, out):
    """Tags describing which construct is in the fan-in of the wrong output."""
    prod = {}
    for n in script['nets']:
        for dd in n['d']:
            prod[dd] = n
    wires = {w['n']: w for w in script['wires']}
    seen = set()
    todo = [out]
    tags = set()
    while todo:
        x = todo.pop()
        if x in seen:
            continue
        seen.add(x)
        w = wires[x]
        if w['k'] == 'R' and w.get('rv'):
            tags.add('fanin:reg_reset_value')
        n = prod.get(x)
        if n is None:
            continue
        tags.add('fanin:op' + n['op'])
        todo.extend(n['a'])
    return sorted(tags)


def candidates(case):
    cyc = case['cycles']
    for k in range(len(cyc) - 1, 0, -1):
        c = copy.deepcopy(case)
        c['cycles'] = cyc[:k]
        yield c
    if case['sched'].get('perm_seed') is not None:
        c = copy.deepcopy(case)
        c['sched'].update({'perm_seed': None, 'noise': 0})
        yield c
    if case['wb'] != 'dut':
        c = copy.deepcopy(case)
        c['wb'] = 'dut'
        yield c
    if case.get('again'):
        c = copy.deepcopy(case)
        c['again'] = case['again'][:-1]
        yield c
    if case.get('refused_first'):
        c = copy.deepcopy(case)
        c['refused_first'] = False
        yield c
    for s in shrink.script_candidates(case['script']):
        c = copy.deepcopy(case)
        c['script'] = s
        c['init'] = shrink.remap_init(case['init'], s)
        c['cycles'] = shrink.remap_cycles(case['cycles'], s)
        s.pop('_memremap', None)
        yield c
    if case['init'].get('regs') or case['init'].get('mems'):
        c = copy.deepcopy(case)
        c['init'] = {'regs': {}, 'mems': {}, 'default': 0}
        yield c
    for t in shrink.simplify_values(case['cycles']):
        c = copy.deepcopy(case)
        c['cycles'] = t
        yield c


def sample_of(case):
    return {'merge': case['merge'], 'update_wb': case['update_wb'], 'wb': case['wb'],
            'mode': case['mode'], 'n_nets': len(case['script']['nets']),
            'nets': [[n['op'], n['a'], n['d']] for n in case['script']['nets'][:10]],
            'cycles': case['cycles'][:2]}
