"""C09 -- lowering/restructuring passes preserve behaviour and meet their postconditions.

World: post-synthesis blocks for nand_synth / and_inverter_synth, arbitrary blocks for
two_way_concat, one_bit_selects, direct_connect_outputs, two_way_fanout; random sequences
of 1..4 passes whose preconditions hold at each point; designs include Outputs driven
directly by registers, memories, Inputs and Consts, selects with repeats, concats of 1..5
operands, the same wire in several argument positions of one net.
Schedule: hash seed (net_transform iterates a set copy while the transform adds nets),
statement permutation. Oracle after every pass: sanity_check, same Inputs/Outputs, Output
traces RefSim(before) == RefSim(after), and the pass's stated postcondition.
"""
import copy
import hashlib

from .. import gen, shrink, world, transforms
from ..common import Violation, HarnessError
from ..netlist import script_shape

ID = 'C09'
LEVEL = 'exploration'
RUN_TIMEOUT_S = 90.0
MIN_BUDGET = 200

TIERS = {
    'quick': {'runs': 12000, 'classes': 8, 'budget_s': 60},
    'thorough': {'runs': 300000, 'classes': 32, 'budget_s': 1100},
}

ANY_PASSES = ['two_way_concat', 'one_bit_selects', 'direct_connect_outputs', 'two_way_fanout']
GATE_PASSES = ['nand_synth', 'and_inverter_synth']

COMPONENTS = {'real': ['passes.nand_synth', 'passes.and_inverter_synth', 'passes.two_way_concat',
                       'passes.one_bit_selects', 'passes.direct_connect_outputs',
                       'passes.two_way_fanout', 'transform.net_transform',
                       'synthesize (to produce post-synthesis blocks)'],
              'stub': ['RefSim before and after each pass', 'postcondition checkers']}


def gen_case(streams, tier):
    g = streams['gen']
    kind = g.choice(['word', 'word', 'synth', 'synth'])
    if kind == 'word':
        cfg = gen.make_cfg(nets=(2, 14), class_pool=['bit', 'small', 'mid', 'w64'],
                           dup_prob=0.15, mem_wide_aw=0.0, regs=(0, 3), probe_frac=0.5)
        pool = ANY_PASSES
    else:
        cfg = gen.make_cfg(nets=(2, 8), classes=g.choice([['bit', 'small'], ['bit']]),
                           max_mul_width=4, dup_prob=0.15, mem_wide_aw=0.0, mem_aw=(1, 3),
                           rom_aw_max=3, regs=(0, 3), mems=(0, 1), max_concat=16, probe_frac=0.5)
        pool = ANY_PASSES + GATE_PASSES + GATE_PASSES
    script = gen.gen_script(g, cfg)
    ncyc = streams['inputs'].randint(2, 8)
    seq = [g.choice(pool) for _ in range(g.choice([1, 1, 2, 3, 4]))]
    if kind == 'synth' and g.random() < 0.2:
        # the gate-level lowerings applied to each other's results, back and forth
        seq = [g.choice(GATE_PASSES) for _ in range(g.choice([3, 4, 5]))]
        if g.random() < 0.5:
            seq = [GATE_PASSES[(i + (seq[0] == GATE_PASSES[0])) % len(GATE_PASSES)]
                   for i in range(len(seq))]
    return {
        'prop': ID, 'kind': kind, 'script': script, 'passes': seq,
        'cycles': gen.gen_inputs(streams['inputs'], script, ncyc),
        'state_seed': g.getrandbits(32),
        'wb': g.choice(['dut', 'other']),
        # a gate-level pass is first refused on another, unsynthesized block (it contains '+');
        # the passes then run on the design through the implicit working block
        'refused_elsewhere': g.random() < 0.25,
        'sched': world.gen_sched(streams, with_iter=False),
    }


def apply_pass(name, blk, implicit=False):
    from pyrtl import passes
    with transforms.quiet():
        if implicit:
            getattr(passes, name)()          # the working block, which is blk
        else:
            getattr(passes, name)(block=blk)


def eligible_output_wires(blk):
    """{Output name: source wire name} for the 'w' nets the docstring calls eligible."""
    import pyrtl
    readers = {}
    prod = {}
    for net in blk.logic:
        for a in net.args:
            readers[id(a)] = readers.get(id(a), 0) + 1
        for d in net.dests:
            prod[id(d)] = net
    out = {}
    for net in blk.logic:
        if net.op == 'w' and isinstance(net.dests[0], pyrtl.Output):
            a = net.args[0]
            if isinstance(a, (pyrtl.Input, pyrtl.Const, pyrtl.Register)):
                continue
            if readers.get(id(a), 0) != 1 or a.bitwidth != net.dests[0].bitwidth:
                continue
            if id(a) in prod:
                out[net.dests[0].name] = a.name
    return out


def postcondition(name, blk, pre=None):
    """-> None or a dict describing the first counterexample to the pass's stated claim."""
    import pyrtl
    from pyrtl import analysis
    if name == 'nand_synth':
        for net in blk.logic:
            if net.op in '&|^':
                return {'op': net.op}
    elif name == 'and_inverter_synth':
        for net in blk.logic:
            if net.op in '|^n':
                return {'op': net.op}
    elif name == 'two_way_concat':
        for net in blk.logic:
            if net.op == 'c' and len(net.args) > 2:
                return {'concat_args': len(net.args)}
    elif name == 'one_bit_selects':
        for net in blk.logic:
            if net.op == 's' and len(net.op_param) != 1:
                return {'select': list(net.op_param)[:8], 'dest_w': net.dests[0].bitwidth}
    elif name == 'direct_connect_outputs':
        # the docstring's contract, evaluated on the block as given: every 'w' net into an
        # Output whose source is produced by a (non-register) net, is read by nothing else
        # and has the Output's bitwidth is removed by this pass
        left = {net.dests[0].name for net in blk.logic
                if net.op == 'w' and isinstance(net.dests[0], pyrtl.Output)
                and not isinstance(net.args[0], (pyrtl.Input, pyrtl.Const, pyrtl.Register))}
        for oname, src in (pre or {}).items():
            if oname in left and blk.wirevector_by_name.get(src) is not None:
                return {'eligible_wire_net_still_before': oname, 'source': src}
    elif name == 'two_way_fanout':
        counts = {}
        names = {}
        for net in blk.logic:
            for a in net.args:
                counts[id(a)] = counts.get(id(a), 0) + 1
                names[id(a)] = a.name
        for k, c in counts.items():
            if c > 2:
                return {'wire': names[k], 'argument_positions': c}
    return None


def run(case, res):
    import pyrtl
    import random
    script = case['script']
    sched = case['sched']
    world.setup_world(sched)
    b = world.build_dut(script, sched)
    blk = b.block
    if case['kind'] == 'synth':
        try:
            blk = pyrtl.synthesize(update_working_block=False, block=b.block)
            if transforms.sanity(blk):
                raise pyrtl.PyrtlError('x')
        except (pyrtl.PyrtlError, pyrtl.PyrtlInternalError):
            res.probes.hit('synth_refused')
            return None
    other = pyrtl.Block()
    pyrtl.set_working_block(other if case['wb'] == 'other' else blk, no_sanity_check=True)
    rng = random.Random(case['state_seed'])
    tape = case['cycles']
    tags0 = [case['kind']]
    implicit = False
    if case.get('refused_elsewhere') and case['wb'] != 'other':
        from pyrtl import passes
        aux = pyrtl.Block()
        with pyrtl.set_working_block(aux, no_sanity_check=True):
            xa, xb = pyrtl.Input(3, 'xa'), pyrtl.Input(3, 'xb')
            xo = pyrtl.Output(4, 'xo')
            xg = pyrtl.Output(3, 'xg')
            xo <<= xa + xb
            xg <<= (xa & xb) | (xa ^ xb)
        for nm in ('nand_synth', 'and_inverter_synth'):
            try:
                with transforms.quiet():
                    getattr(passes, nm)(block=aux)
            except pyrtl.PyrtlError:
                res.faults.hit('pass_refused_on_another_block')
        implicit = True
        tags0 = tags0 + ['after_refusal_elsewhere']
    for pi, pname in enumerate(case['passes']):
        nl_a, live_a = transforms.block_netlist(blk)
        sig_a = transforms.io_signature(blk)
        wb = pyrtl.working_block()
        tags = tags0 + ['pass:' + pname]
        _shape_probes(blk, res)
        pre_dco = eligible_output_wires(blk) if pname == 'direct_connect_outputs' else None
        try:
            apply_pass(pname, blk, implicit)
        except Exception as e:
            return Violation('pass', 'raises', {'pass': pname, 'index': pi, 'exc': repr(e)[:400]}, tags)
        res.log.log('pass', pname, pi, len(blk.logic))
        res.faults.hit('pass_applied')
        res.probes.hit('pass:' + pname)
        if pyrtl.working_block() is not wb:
            return Violation('working_block', 'changed_by_in_place_pass', {'pass': pname}, tags)
        s = transforms.sanity(blk)
        if s:
            return Violation('well_formed', 'sanity_check_fails_after_pass',
                             {'pass': pname, 'index': pi, 'exc': s}, tags)
        sig_b = transforms.io_signature(blk)
        if sig_a != sig_b:
            return Violation('io', 'inputs_or_outputs_changed', {'pass': pname}, tags)
        pc = postcondition(pname, blk, pre_dco)
        if pc:
            return Violation('postcondition', 'not_established', {'pass': pname, 'witness': pc}, tags)
        nl_b, live_b = transforms.block_netlist(blk)
        if sorted(nl_a.registers()) != sorted(nl_b.registers()):
            return Violation('registers', 'register_set_changed',
                             {'pass': pname, 'before': nl_a.registers()[:5],
                              'after': nl_b.registers()[:5]}, tags)
        regs_init = {n: gen.rand_val(rng, nl_a.wires[n].width) for n in nl_a.registers()}
        mems_init = {}
        for k in live_a.ram_keys():
            m = live_a.mems[k]
            mems_init[k] = {str(rng.randrange(1 << m.addrwidth)): gen.rand_val(rng, m.bitwidth)
                            for _ in range(rng.randint(0, 3))}
        init = {'regs': regs_init, 'mems': mems_init, 'default': 0}
        outs = [n for n, _w in sig_a[1]]
        rows_a, na, _ = transforms.ref_trace(nl_a, init, tape, outs)
        rows_b, nb, _ = transforms.ref_trace(nl_b, init, tape, outs)
        n = min(na, nb)
        d = transforms.compare_rows(rows_a, rows_b, outs, n)
        if d:
            c, name, va, vb = d
            return Violation('behaviour', 'value_mismatch',
                             {'pass': pname, 'index': pi, 'output': name, 'cycle': c,
                              'before': va, 'after': vb}, tags)
        res.cycles += n
    res.shape = hashlib.sha1((case['kind'] + script_shape(script)).encode()).hexdigest()[:12]
    res.sched = hashlib.sha1(repr([case['passes'], sorted(str(x) for x in blk.logic)[:100]]
                                  ).encode()).hexdigest()[:12]
    res.nontrivial = res.cycles > 0
    return None


def _shape_probes(blk, res):
    import pyrtl
    for net in blk.logic:
        if net.op == 'w' and isinstance(net.dests[0], pyrtl.Output):
            a = net.args[0]
            res.probes.hit('output_fed_by:' + type(a).__name__)
        if net.op == 'r' and isinstance(net.dests[0], pyrtl.Output):
            res.probes.hit('r_net_into_output')
        if len(net.args) > 1 and len(set(id(a) for a in net.args)) < len(net.args):
            res.probes.hit('same_wire_twice_in_one_net')
        if net.op == 'c':
            res.probes.hit('concat_arity:%d' % min(len(net.args), 5))
        if net.op == 's' and len(net.op_param) > net.dests[0].bitwidth:
            res.probes.hit('select_wider_than_dest')


def candidates(case):
    if case.get('refused_elsewhere'):
        c = copy.deepcopy(case)
        c['refused_elsewhere'] = False
        yield c
    for i in range(len(case['passes'])):
        if len(case['passes']) > 1:
            c = copy.deepcopy(case)
            del c['passes'][i]
            yield c
    cyc = case['cycles']
    for k in range(len(cyc) - 1, 0, -1):
        c = copy.deepcopy(case)
        c['cycles'] = cyc[:k]
        yield c
    if case['sched'].get('perm_seed') is not None:
        c = copy.deepcopy(case)
        c['sched'].update({'perm_seed': None, 'noise': 0})
        yield c
    if case['wb'] != 'dut':
        c = copy.deepcopy(case)
        c['wb'] = 'dut'
        yield c
    for s in shrink.script_candidates(case['script']):
        c = copy.deepcopy(case)
        c['script'] = s
        c['cycles'] = shrink.remap_cycles(case['cycles'], s)
        s.pop('_memremap', None)
        yield c
    for t in shrink.simplify_values(case['cycles']):
        c = copy.deepcopy(case)
        c['cycles'] = t
        yield c


def sample_of(case):
    return {'kind': case['kind'], 'passes': case['passes'], 'n_nets': len(case['script']['nets']),
            'nets': [[n['op'], n['a'], n['d']] for n in case['script']['nets'][:10]],
            'cycles': case['cycles'][:2]}
