"""C18 -- rtllib AES and PRNG generators implement their published algorithms.

One configuration per world (swarm style):

* kind 'aes_sm'   : `AES.encrypt_state_m` and `AES.decryption_statem`, each in its own block,
  stepped in lock-step under a schedule of `reset` pulses with fresh key/data. A pulse while an
  operation is in flight is the fault `abort_restart`. Oracle: on every idle cycle after the
  LAST pulse (at t): from t+11 on `ready` = 1 and the output equals the FIPS-197 reference for
  the operands sampled AT the pulse, and stays so until the next pulse; before t+11 `ready`
  must not announce a wrong value. The docstrings say reset makes the machine "accept the
  current plaintext and key", i.e. the operands are sampled at the pulse; the repo's own test
  feeds bogus operands afterwards. The driver therefore either holds, zeroes or scrambles the
  operand inputs after the pulse (tagged). A `chain` pulse feeds the observed result of the
  other machine back (decrypt(encrypt(x)) = x end to end).
* kind 'lfsr' / 'xoroshiro' / 'trivium': one generator with an explicit seed Input, one
  bitwidth, one bits_per_cycle. The script is a list of pulses (load / req / both) that either
  wait for the documented completion of the previous operation (conformant) or come early
  (protocol violation = fault `abort_restart`). A reference model follows the documented
  protocol: after a completed load every completed request returns the next chunk of the
  reference stream; `ready` rises exactly after the documented number of cycles (xoroshiro:
  ceil(bw/64) after req; Trivium: 1152/bpc + 1 after load, ceil(bw/bpc) after req; LFSR: value
  valid the cycle after req, no ready) and the value holds while idle. After a violation
  nothing is judged until the next load; a load always restarts cleanly with the seed
  sampled at the load cycle (the seed wire is held / zeroed / scrambled otherwise).
* kind 'aes_comb' (stateless samples): single-cycle `encryption` / `decryption` (and their
  hardware composition) on the FIPS-197 vectors plus random blocks.

References are in verifsim/c18_refs.py (written from the specifications; self-tested against
published vectors on every run).
"""
import copy
import hashlib
import random

from .. import world
from .. import c18_refs as refs
from ..common import Violation, HarnessError

ID = 'C18'
LEVEL = 'exploration'
RUN_TIMEOUT_S = 180.0
MIN_BUDGET = 150

TIERS = {
    'quick': {'runs': 3500, 'classes': 8, 'budget_s': 60},
    'thorough': {'runs': 75000, 'classes': 32, 'budget_s': 1100},
}

COMPONENTS = {
    'real': ['pyrtl.rtllib.aes.AES.encrypt_state_m / decryption_statem / encryption / decryption',
             'pyrtl.rtllib.prngs.prng_lfsr / prng_xoroshiro128 / csprng_trivium',
             'pyrtl.Simulation, pyrtl.FastSimulation (to run them)'],
    'stub': ['c18_refs: AES-128 from FIPS-197 (computed S-box), 127-bit Fibonacci LFSR, '
             'xoroshiro128+ (55/14/36), bit-serial Trivium; protocol models in this file'],
}

EXPECTED_PROBES = ['aes_enc_completed', 'aes_dec_completed', 'aes_roundtrip', 'aes_comb_vectors',
                   'lfsr_req_completed', 'xoroshiro_req_completed', 'trivium_req_completed',
                   'trivium_load_completed', 'reseed', 'exact_after_fault', 'fault:aes_reset_in_flight',
                   'fault:req_in_flight', 'fault:load_in_flight',
                   'bw_not_multiple_of_granule', 'sim:fast', 'sim:sim']

ASSUMPTIONS = [
    'AES state machines sample key/data at the reset pulse (docstring: "accept the current '
    'plaintext and key"); operands need not be held afterwards',
    'ready is a level: it stays 1 (and the result stays put) on idle cycles after completion',
    'xoroshiro128+ means the 2016 parameters 55/14/36 (the ones on the linked page when rtllib '
    'was written); seed[:64] = s0, seed[64:] = s1; a request of bw bits consumes ceil(bw/64) '
    'words, earliest word most significant, MSBs returned (docstring)',
    'Trivium: key = seed[80:], iv = seed[:80], K_i / IV_i = bit i-1; a request consumes '
    'ceil(bw/bpc)*bpc key-stream bits and returns the LAST bw of them, earliest at the MSB '
    '(which surplus bits are dropped when bpc does not divide bw is not documented; the '
    'reading that keeps the result a contiguous window of the stream is used)',
    'a pulse on the first ready cycle (ready never observed) counts as a protocol violation',
]

BITWIDTHS = [1, 7, 32, 63, 64, 65, 96, 127, 128, 129, 130, 160, 191, 192, 193, 200, 255, 256]
BPCS = [1, 2, 4, 8, 16, 32, 64]
SEEDW = {'lfsr': 127, 'xoroshiro': 128, 'trivium': 160}
GEN_NAME = {'lfsr': 'prng_lfsr', 'xoroshiro': 'prng_xoroshiro128', 'trivium': 'csprng_trivium'}
AES_LAT = 11


def _hx(v):
    return '0x%x' % v


def _iv(s):
    return int(s, 16)


# ---------------------------------------------------------------------------------------
# generation
# ---------------------------------------------------------------------------------------

def _rand_bits(rng, w):
    r = rng.random()
    if r < 0.06:
        return 0
    if r < 0.10:
        return (1 << w) - 1
    if r < 0.14:
        return 1 << rng.randrange(w)
    if r < 0.18:
        return rng.getrandbits(w) & rng.getrandbits(w) & rng.getrandbits(w)   # sparse
    if r < 0.21:
        return rng.getrandbits(min(w, 16))
    return rng.getrandbits(w)


def latencies(kind, bw, bpc):
    """(cycles from load pulse to usable, cycles from req pulse to result), per docstrings."""
    if kind == 'lfsr':
        return 0, 1
    if kind == 'xoroshiro':
        return 0, -(-bw // 64)
    return 1152 // bpc + 1, -(-bw // bpc)


def gen_prng(kind, streams):
    g, sch, flt, inp = streams['gen'], streams['sched'], streams['faults'], streams['inputs']
    bw = g.choice(BITWIDTHS)
    bpc = g.choice(BPCS) if kind == 'trivium' else None
    load_lat, req_lat = latencies(kind, bw, bpc)
    slow_load = load_lat > 200
    simk = 'sim' if g.random() < (0.08 if slow_load else 0.3) else 'fast'
    n = sch.choice([2, 3, 4, 5, 6, 8, 10, 12])
    fault_rate = flt.choice([0.0, 0.0, 0.1, 0.3])
    max_loads = 3 if slow_load else 6
    script = []
    if flt.random() < 0.12:
        for _ in range(flt.randint(1, 2)):          # junk before the first load
            script.append({'op': 'req', 'wait': False, 'gap': flt.randrange(3)})
    script.append({'op': 'load', 'wait': False, 'gap': sch.randrange(3),
                   'seed': _hx(_rand_bits(inp, SEEDW[kind]))})
    nloads = 1
    prev_lat = load_lat
    last_seed = script[-1]['seed']
    for _ in range(n):
        r = sch.random()
        op = 'req'
        if r > 0.78 and nloads < max_loads:
            op = 'load'
        if flt.random() < 0.04 + fault_rate * 0.3:
            op = 'both'          # load and req in the same cycle
        if flt.random() < fault_rate:
            p = {'op': op, 'wait': False, 'gap': flt.randrange(0, prev_lat + 2)}
        else:
            p = {'op': op, 'wait': True,
                 'gap': sch.choice([0, 0, 0, 0, 1, 1, 2, 3, 7, sch.randrange(30)])}
        if op in ('load', 'both'):
            p['seed'] = last_seed if inp.random() < 0.15 else _hx(_rand_bits(inp, SEEDW[kind]))
            last_seed = p['seed']
            nloads += 1
            prev_lat = load_lat
        else:
            prev_lat = req_lat
        script.append(p)
    return {'kind': kind, 'bw': bw, 'bpc': bpc, 'sim': simk,
            'seed_mode': g.choice(['hold', 'zero', 'scramble', 'scramble']),
            'noise_seed': inp.getrandbits(32), 'script': script}


def gen_aes_sm(streams):
    g, sch, flt, inp = streams['gen'], streams['sched'], streams['faults'], streams['inputs']
    units = g.choice([['enc', 'dec'], ['enc', 'dec'], ['enc'], ['dec']])
    fault_rate = flt.choice([0.0, 0.15, 0.35])
    scripts = {}
    for u in units:
        ps = []
        for i in range(sch.choice([1, 2, 3, 4, 5])):
            if i > 0 and flt.random() < fault_rate:
                p = {'wait': False, 'gap': flt.randrange(0, AES_LAT + 1)}
            else:
                p = {'wait': True, 'gap': sch.choice([0, 0, 1, 2, 3, sch.randrange(12)])}
            r = inp.random()
            if r < 0.12:
                k, pt, ct = refs.FIPS_VECTORS[inp.randrange(len(refs.FIPS_VECTORS))]
                p['key'], p['data'] = _hx(k), _hx(pt if u == 'enc' else ct)
            else:
                p['key'], p['data'] = _hx(_rand_bits(inp, 128)), _hx(_rand_bits(inp, 128))
            p['chain'] = len(units) == 2 and inp.random() < 0.4
            ps.append(p)
        scripts[u] = ps
    return {'kind': 'aes_sm', 'sim': 'sim' if g.random() < 0.35 else 'fast',
            'hold': g.choice(['hold', 'zero', 'scramble', 'scramble']),
            'noise_seed': inp.getrandbits(32), 'tail': sch.choice([1, 2, 4]),
            'scripts': scripts}


def gen_aes_comb(streams):
    g, inp = streams['gen'], streams['inputs']
    vecs = []
    for k, pt, ct in refs.FIPS_VECTORS:
        vecs.append([_hx(k), _hx(pt)])
        vecs.append([_hx(k), _hx(ct)])
    for _ in range(inp.randint(4, 14)):
        vecs.append([_hx(_rand_bits(inp, 128)), _hx(_rand_bits(inp, 128))])
    inp.shuffle(vecs)
    return {'kind': 'aes_comb', 'sim': 'sim' if g.random() < 0.3 else 'fast',
            'compose': g.random() < 0.35, 'share': g.random() < 0.5, 'vectors': vecs,
            # the decryption unit gets a key wire of its own (key ^ mask): units built from one
            # AES object, or one after the other, must each use the key they were given
            'key2_mask': _hx(_rand_bits(g, 128)) if g.random() < 0.5 else None}


def gen_case(streams, tier):
    g = streams['gen']
    r = g.random()
    if r < 0.13:
        case = gen_aes_sm(streams)
    elif r < 0.17:
        case = gen_aes_comb(streams)
    elif r < 0.37:
        case = gen_prng('lfsr', streams)
    elif r < 0.62:
        case = gen_prng('xoroshiro', streams)
    else:
        case = gen_prng('trivium', streams)
    case['prop'] = ID
    case['sched'] = world.gen_sched(streams, with_iter=False, noise=False)
    return case


# ---------------------------------------------------------------------------------------
# helpers
# ---------------------------------------------------------------------------------------

def _make_sim(kind, blk):
    import pyrtl
    tr = pyrtl.SimulationTrace(block=blk)
    if kind == 'fast':
        return pyrtl.FastSimulation(tracer=tr, block=blk)
    return pyrtl.Simulation(tracer=tr, block=blk)


def _digest(obj):
    return hashlib.sha1(repr(obj).encode()).hexdigest()[:12]


class _Noise(object):
    """Values driven on operand/seed inputs when they are not being sampled."""

    def __init__(self, mode, seed, width):
        self.mode = mode
        self.rng = random.Random(seed)
        self.width = width
        self.held = 0

    def sampled(self, v):
        self.held = v
        return v

    def other(self):
        if self.mode == 'hold':
            return self.held
        if self.mode == 'zero':
            return 0
        return self.rng.getrandbits(self.width)


# ---------------------------------------------------------------------------------------
# PRNG worlds
# ---------------------------------------------------------------------------------------

class PrngModel(object):
    """The documented protocol. mode: unknown | loaded | seeded | busy | done."""

    def __init__(self, kind, bw, bpc):
        self.kind, self.bw, self.bpc = kind, bw, bpc
        self.load_lat, self.req_lat = latencies(kind, bw, bpc)
        self.mode = 'unknown'
        self.stream = None
        self.T = None
        self.pending = None
        self.value = None
        self.nreq = 0            # completed requests since the last load
        self.nloads = 0
        self.faulted = False     # a violation happened earlier in this world
        self.last_pulse = -1

    def new_stream(self, seed):
        if self.kind == 'lfsr':
            return refs.LfsrStream(seed)
        if self.kind == 'xoroshiro':
            return refs.XoroshiroStream(seed)
        return refs.trivium_from_seed(seed)

    def next_value(self):
        if self.kind == 'lfsr':
            return self.stream.take(self.bw)
        if self.kind == 'xoroshiro':
            return self.stream.take_request(self.bw)
        return self.stream.take_request(self.bw, self.bpc)

    def expect(self, c, is_pulse):
        """-> (expected ready or None, expected rand or None, note). Advances completion."""
        exp_ready = exp_rand = None
        note = ''
        if self.mode == 'busy':
            if c < self.T:
                if not is_pulse:
                    exp_ready = 0
                    note = 'before_completion'
            elif not is_pulse or self.kind == 'lfsr':
                note = 'completion:' + self.pending
                if self.pending == 'req':
                    self.mode = 'done'
                    self.nreq += 1
                    exp_rand = self.value
                else:
                    self.mode = 'seeded'
                if not is_pulse:
                    exp_ready = 1
        elif self.mode == 'done':
            exp_rand = self.value
            note = 'hold'
            if not is_pulse:
                exp_ready = 1
        elif self.mode == 'seeded':
            note = 'seeded_idle'
            if not is_pulse:
                exp_ready = 1
        if self.kind == 'lfsr':
            exp_ready = None
        return exp_ready, exp_rand, note

    def pulse(self, c, op, seed, res):
        """Apply a pulse at cycle c (after expect())."""
        in_flight = self.mode == 'busy'
        self.last_pulse = c
        if op == 'both':
            res.faults.hit('abort_restart')
            res.probes.hit('fault:load_and_req')
            self.mode = 'unknown'
            self.faulted = True
            return 'violation'
        if op == 'load':
            if in_flight:
                res.faults.hit('abort_restart')
                res.probes.hit('fault:load_in_flight')
                self.faulted = True
            if self.nloads:
                res.probes.hit('reseed')
            self.nloads += 1
            self.stream = self.new_stream(seed)
            self.nreq = 0
            self.value = None
            if self.load_lat:
                self.mode, self.pending, self.T = 'busy', 'load', c + self.load_lat
            else:
                self.mode = 'loaded'
            return 'load'
        # req
        if self.mode == 'unknown':
            res.probes.hit('req_while_unknown')
            return 'ignored'
        if in_flight:
            res.faults.hit('abort_restart')
            res.probes.hit('fault:req_in_flight')
            self.mode = 'unknown'
            self.faulted = True
            return 'violation'
        self.value = self.next_value()
        self.mode, self.pending, self.T = 'busy', 'req', c + self.req_lat
        return 'req'


def prng_tags(case):
    t = ['gen:' + GEN_NAME[case['kind']], 'bw:%d' % case['bw']]
    if case['kind'] == 'trivium':
        t.append('bpc:%d' % case['bpc'])
    return t


def run_prng(case, res):
    import pyrtl
    from pyrtl.rtllib import prngs
    kind, bw, bpc = case['kind'], case['bw'], case['bpc']
    tags = prng_tags(case)
    blk = pyrtl.Block()
    try:
        with pyrtl.set_working_block(blk, no_sanity_check=True):
            seed = pyrtl.Input(SEEDW[kind], 'seed')
            load = pyrtl.Input(1, 'load')
            req = pyrtl.Input(1, 'req')
            ready = None
            if kind == 'lfsr':
                rand = prngs.prng_lfsr(bw, load, req, seed)
            elif kind == 'xoroshiro':
                ready, rand = prngs.prng_xoroshiro128(bw, load, req, seed)
            else:
                if case.get('noise_seed', 1) % 3 == 0:
                    # the user first asks for a chunk size the generator does not offer, is
                    # refused, and asks again in the same design
                    try:
                        prngs.csprng_trivium(bw, load, req, seed, (48, 24, 12, 3)[case['noise_seed'] % 4])
                    except pyrtl.PyrtlError:
                        res.faults.hit('generator_refused_first')
                    else:
                        return Violation('build', 'invalid_bits_per_cycle_accepted', {}, tags)
                ready, rand = prngs.csprng_trivium(bw, load, req, seed, bpc)
            if len(rand) != bw:
                return Violation('interface', 'rand_width', {'len': len(rand), 'bw': bw}, tags)
            o = pyrtl.Output(bw, 'rand')
            o <<= rand
            if ready is not None:
                ro = pyrtl.Output(1, 'ready')
                ro <<= ready
    except (pyrtl.PyrtlError, pyrtl.PyrtlInternalError) as e:
        return Violation('build', 'generator_refused', {'exc': repr(e)[:300]}, tags)
    sim = _make_sim(case['sim'], blk)
    res.probes.hit('sim:' + case['sim'])
    res.probes.hit('gen:' + kind)
    granule = {'lfsr': 1, 'xoroshiro': 64, 'trivium': bpc}[kind]
    if bw % granule:
        res.probes.hit('bw_not_multiple_of_granule')

    model = PrngModel(kind, bw, bpc)
    noise = _Noise(case['seed_mode'], case['noise_seed'], SEEDW[kind])
    script = case['script']
    cur = 0
    c = 0
    due = script[0]['gap'] if script else None
    end_at = None
    while True:
        is_pulse = cur < len(script) and c == due
        if cur >= len(script):
            if end_at is None:
                end_at = (model.T if model.mode == 'busy' else c) + 2
            if c > end_at:
                break
        if c > 40000:
            raise HarnessError('C18 prng world ran away')
        ins = {'load': 0, 'req': 0}
        p = None
        if is_pulse:
            p = script[cur]
            if p['op'] in ('load', 'both'):
                ins['load'] = 1
                ins['seed'] = noise.sampled(_iv(p['seed']))
            else:
                ins['seed'] = noise.other()
            if p['op'] in ('req', 'both'):
                ins['req'] = 1
        else:
            ins['seed'] = noise.other()
        sim.step(ins)
        res.cycles += 1
        got_rand = sim.inspect('rand')
        got_ready = sim.inspect('ready') if ready is not None else None
        was_faulted = model.faulted
        exp_ready, exp_rand, note = model.expect(c, is_pulse)
        if cur == 0 and not is_pulse and ready is not None and kind == 'xoroshiro' and exp_ready is None:
            # nothing has been loaded or asked for yet: there is no number ready can announce
            exp_ready = 0
            note = 'before_the_first_pulse'
            res.probes.hit('ready_judged_before_the_first_pulse')
        if is_pulse and ready is not None and kind != 'lfsr':
            # a request (or a seed) is being handed over in this very cycle: ready cannot claim
            # that the number asked for has been produced
            exp_ready = 0
            note = note or 'in_the_cycle_of_the_pulse'
        hist = []
        if model.nloads > 1:
            hist.append('hist:reseeded')
        if was_faulted:
            hist.append('hist:after_fault')
        if exp_ready is not None and got_ready != exp_ready:
            cls = 'ready_early' if exp_ready == 0 else \
                ('ready_missing_at_completion' if note.startswith('completion') else 'ready_dropped')
            return Violation('ready_timing', cls,
                             {'cycle': c, 'last_pulse': model.last_pulse, 'expected_at': model.T,
                              'note': note, 'pending': model.pending, 'sim': case['sim']},
                             tags + hist + ['phase:' + note.split(':')[-1]])
        if exp_rand is not None:
            if note.startswith('completion'):
                res.probes.hit(kind + '_req_completed')
                res.log.log('dut', 'rand', c, _hx(got_rand))
                if was_faulted:
                    res.probes.hit('exact_after_fault')
                if model.nreq > 1:
                    res.probes.hit('consecutive_request')
            if got_rand != exp_rand:
                return Violation('stream', 'wrong_chunk' if note.startswith('completion')
                                 else 'value_not_held',
                                 {'cycle': c, 'request_index_since_load': model.nreq,
                                  'expected': _hx(exp_rand), 'got': _hx(got_rand),
                                  'xor': _hx(exp_rand ^ got_rand), 'sim': case['sim'],
                                  'seed_mode': case['seed_mode']},
                                 tags + hist + ['req:first' if model.nreq == 1 else 'req:later'])
        elif note == 'completion:load':
            res.probes.hit('trivium_load_completed')
        if is_pulse:
            out = model.pulse(c, p['op'], _iv(p['seed']) if 'seed' in p else None, res)
            res.log.log('drv', p['op'], c, out)
            cur += 1
            if cur < len(script):
                nx = script[cur]
                base = c
                if nx['wait'] and model.mode == 'busy' and kind != 'lfsr':
                    base = max(c, model.T)      # (LFSR: single-cycle, req may follow req)
                due = base + 1 + nx['gap']
        c += 1
    res.shape = _digest((kind, bw, bpc, case['sim'], case['seed_mode']))
    res.sched = _digest([(p['op'], p['wait'], p['gap']) for p in script])
    res.nontrivial = res.cycles > 0
    return None


# ---------------------------------------------------------------------------------------
# AES state machines
# ---------------------------------------------------------------------------------------

class AesUnit(object):
    def __init__(self, name, sim, script, noise_mode, noise_seed):
        self.name = name
        self.sim = sim
        self.script = script
        self.cur = 0
        self.due = script[0]['gap'] if script else None
        self.mode = 'unknown'        # unknown | busy | done
        self.T = None
        self.expected = None
        self.key = self.data = None
        self.origin = None           # for chained pulses: the value the round trip must restore
        self.observed = None
        self.nk = _Noise(noise_mode, noise_seed, 128)
        self.nd = _Noise(noise_mode, noise_seed ^ 0x5a5a5a5a, 128)
        self.ref = refs.aes_encrypt if name == 'enc' else refs.aes_decrypt
        self.end_at = None

    def finished(self, c):
        if self.cur < len(self.script):
            return False
        return c > self.end_at


def run_aes_sm(case, res):
    import pyrtl
    from pyrtl.rtllib import aes
    units = {}
    blocks = []
    base_tags = ['hold:' + case['hold']]
    try:
        for ui, name in enumerate(sorted(case['scripts'])):
            blk = pyrtl.Block()
            with pyrtl.set_working_block(blk, no_sanity_check=True):
                a = aes.AES()
                key = pyrtl.Input(128, 'key')
                data = pyrtl.Input(128, 'data')
                reset = pyrtl.Input(1, 'reset')
                if name == 'enc':
                    rdy, out = a.encrypt_state_m(data, key, reset)
                else:
                    rdy, out = a.decryption_statem(data, key, reset)
                o = pyrtl.Output(128, 'out')
                o <<= out
                r = pyrtl.Output(1, 'ready')
                r <<= rdy
            blocks.append((name, blk, ui))
    except (pyrtl.PyrtlError, pyrtl.PyrtlInternalError) as e:
        return Violation('build', 'aes_refused', {'exc': repr(e)[:300]}, ['gen:aes_sm'])
    for name, blk, ui in blocks:
        units[name] = AesUnit(name, _make_sim(case['sim'], blk), case['scripts'][name],
                              case['hold'], case['noise_seed'] + ui)
    res.probes.hit('sim:' + case['sim'])
    res.probes.hit('gen:aes_sm')
    tail = case.get('tail', 2)
    c = 0
    order = sorted(units)
    while True:
        if c > 2000:
            raise HarnessError('C18 aes world ran away')
        live = False
        for name in order:
            u = units[name]
            if u.cur >= len(u.script) and u.end_at is None:
                u.end_at = (u.T if u.mode == 'busy' else c) + tail
            if u.finished(c):
                continue
            live = True
            tags = ['gen:aes_' + ('encrypt_state_m' if name == 'enc' else 'decryption_statem')] \
                + base_tags
            is_pulse = u.cur < len(u.script) and c == u.due
            if is_pulse:
                p = u.script[u.cur]
                key, data = _iv(p['key']), _iv(p['data'])
                origin = None
                other = units.get('dec' if name == 'enc' else 'enc')
                if p.get('chain') and other is not None and other.mode == 'done' \
                        and other.observed is not None:
                    key, data, origin = other.key, other.observed, other.data
                ins = {'reset': 1, 'key': u.nk.sampled(key), 'data': u.nd.sampled(data)}
            else:
                ins = {'reset': 0, 'key': u.nk.other(), 'data': u.nd.other()}
            u.sim.step(ins)
            res.cycles += 1
            g_ready = u.sim.inspect('ready')
            g_out = u.sim.inspect('out')
            if is_pulse:
                if u.mode == 'busy':
                    res.faults.hit('abort_restart')
                    res.probes.hit('fault:aes_reset_in_flight')
                u.mode, u.T = 'busy', c + AES_LAT
                u.key, u.data, u.origin = key, data, origin
                u.expected = u.ref(data, key)
                u.observed = None
                res.log.log(name, 'reset', c, 'chain' if origin is not None else 'own')
                u.cur += 1
                if u.cur < len(u.script):
                    nx = u.script[u.cur]
                    u.due = (u.T if nx['wait'] else c) + 1 + nx['gap']
            elif u.mode != 'unknown':
                det = {'cycle': c, 'pulse_at': u.T - AES_LAT, 'key': _hx(u.key),
                       'data': _hx(u.data), 'expected': _hx(u.expected), 'got': _hx(g_out),
                       'ready': g_ready, 'sim': case['sim']}
                if c < u.T:
                    if g_ready == 1 and g_out != u.expected:
                        return Violation('aes_sm', 'ready_with_wrong_value', det, tags)
                else:
                    if g_ready != 1:
                        return Violation('aes_sm', 'not_ready_within_11_cycles' if u.mode == 'busy'
                                         else 'ready_dropped', det, tags)
                    if g_out != u.expected:
                        return Violation('aes_sm', 'wrong_result' if u.mode == 'busy'
                                         else 'result_not_held', det, tags)
                    if u.mode == 'busy':
                        u.mode = 'done'
                        u.observed = g_out
                        res.probes.hit('aes_%s_completed' % name)
                        res.log.log(name, 'done', c, _hx(g_out))
                        if u.origin is not None:
                            res.probes.hit('aes_roundtrip')
                            if g_out != u.origin:
                                return Violation('aes_sm', 'roundtrip_not_identity',
                                                 dict(det, origin=_hx(u.origin)), tags)
        if not live:
            break
        c += 1
    res.shape = _digest(('aes_sm', sorted(case['scripts']), case['sim'], case['hold']))
    res.sched = _digest([(n, [(p['wait'], p['gap'], bool(p.get('chain'))) for p in ps])
                         for n, ps in sorted(case['scripts'].items())])
    res.nontrivial = res.cycles > 0
    return None


# ---------------------------------------------------------------------------------------
# single-cycle AES (stateless samples)
# ---------------------------------------------------------------------------------------

def run_aes_comb(case, res):
    import pyrtl
    from pyrtl.rtllib import aes
    blk = pyrtl.Block()
    try:
        with pyrtl.set_working_block(blk, no_sanity_check=True):
            a = aes.AES()
            b = a if case.get('share') else aes.AES()
            key = pyrtl.Input(128, 'key')
            data = pyrtl.Input(128, 'data')
            e = pyrtl.Output(128, 'enc')
            enc_w = a.encryption(data, key)
            e <<= enc_w
            d = pyrtl.Output(128, 'dec')
            key2 = key
            if case.get('key2_mask'):
                key2 = pyrtl.Input(128, 'key2')
                res.probes.hit('aes_comb_second_key_wire')
            d <<= b.decryption(data, key2)
            if case.get('compose'):
                rt = pyrtl.Output(128, 'rt')
                rt <<= b.decryption(enc_w, key)
    except (pyrtl.PyrtlError, pyrtl.PyrtlInternalError) as e:
        return Violation('build', 'aes_refused', {'exc': repr(e)[:300]}, ['gen:aes_comb'])
    sim = _make_sim(case['sim'], blk)
    res.probes.hit('sim:' + case['sim'])
    res.probes.hit('gen:aes_comb')
    for i, (k, x) in enumerate(case['vectors']):
        k, x = _iv(k), _iv(x)
        k2 = k
        ins = {'key': k, 'data': x}
        if case.get('key2_mask'):
            k2 = k ^ _iv(case['key2_mask'])
            ins['key2'] = k2
        sim.step(ins)
        res.stateless += 1
        res.probes.hit('aes_comb_vectors')
        checks = [('enc', refs.aes_encrypt(x, k), 'gen:aes_encryption'),
                  ('dec', refs.aes_decrypt(x, k2), 'gen:aes_decryption')]
        if case.get('compose'):
            checks.append(('rt', x, 'gen:aes_decryption_of_encryption'))
        for name, exp, tag in checks:
            got = sim.inspect(name)
            if got != exp:
                return Violation('aes_comb', 'wrong_' + name,
                                 {'vector': i, 'key': _hx(k), 'data': _hx(x), 'expected': _hx(exp),
                                  'got': _hx(got), 'sim': case['sim']}, [tag])
    res.log.log('dut', 'aes_comb', len(case['vectors']), 'ok')
    res.shape = _digest(('aes_comb', case.get('compose'), case.get('share'), case['sim']))
    res.sched = ''
    res.nontrivial = False          # plain input sampling: counted under stateless samples
    return None


# ---------------------------------------------------------------------------------------

def run(case, res):
    world.setup_world(case['sched'])
    try:
        refs.selftest()
    except AssertionError as e:
        raise HarnessError('C18 reference self-test failed: %r' % (e,))
    kind = case['kind']
    if kind == 'aes_sm':
        return run_aes_sm(case, res)
    if kind == 'aes_comb':
        return run_aes_comb(case, res)
    return run_prng(case, res)


# ---------------------------------------------------------------------------------------
# shrinking
# ---------------------------------------------------------------------------------------

def _script_variants(script, key_fields):
    n = len(script)
    # truncate the tail, then drop single pulses, then zero gaps, then simplify values
    for k in range(1, n):
        yield script[:k]
    for i in range(n):
        if n > 1:
            yield script[:i] + script[i + 1:]
    for i, p in enumerate(script):
        if p['gap']:
            q = copy.deepcopy(script)
            q[i]['gap'] = 0
            yield q
            if p['gap'] > 1:
                q = copy.deepcopy(script)
                q[i]['gap'] = p['gap'] // 2
                yield q
        for f in key_fields:
            if f in p and p[f] not in ('0x0', '0x1'):
                for v in ('0x0', '0x1'):
                    q = copy.deepcopy(script)
                    q[i][f] = v
                    yield q
        if p.get('chain'):
            q = copy.deepcopy(script)
            q[i]['chain'] = False
            yield q


def candidates(case):
    kind = case['kind']
    if case.get('sim') != 'fast':
        c = copy.deepcopy(case)
        c['sim'] = 'fast'
        yield c
    if kind == 'aes_comb':
        v = case['vectors']
        for i in range(len(v)):
            if len(v) > 1:
                c = copy.deepcopy(case)
                del c['vectors'][i]
                yield c
        for f in ('compose', 'share', 'key2_mask'):
            if case.get(f):
                c = copy.deepcopy(case)
                c[f] = False if f != 'key2_mask' else None
                yield c
        return
    if kind == 'aes_sm':
        if case['hold'] != 'hold':
            c = copy.deepcopy(case)
            c['hold'] = 'hold'
            yield c
        if len(case['scripts']) > 1:
            for u in sorted(case['scripts']):
                c = copy.deepcopy(case)
                del c['scripts'][u]
                yield c
        for u in sorted(case['scripts']):
            for s in _script_variants(case['scripts'][u], ('key', 'data')):
                if not s:
                    continue
                c = copy.deepcopy(case)
                c['scripts'][u] = s
                yield c
        return
    if case['seed_mode'] != 'hold':
        c = copy.deepcopy(case)
        c['seed_mode'] = 'hold'
        yield c
    for s in _script_variants(case['script'], ('seed',)):
        if not s:
            continue
        c = copy.deepcopy(case)
        c['script'] = s
        yield c


def sample_of(case):
    kind = case['kind']
    if kind == 'aes_comb':
        return {'kind': kind, 'sim': case['sim'], 'compose': case.get('compose'),
                'vectors': len(case['vectors'])}
    if kind == 'aes_sm':
        return {'kind': kind, 'sim': case['sim'], 'hold': case['hold'],
                'scripts': {u: [(p['wait'], p['gap'], bool(p.get('chain'))) for p in ps]
                            for u, ps in case['scripts'].items()}}
    return {'kind': kind, 'bw': case['bw'], 'bpc': case['bpc'], 'sim': case['sim'],
            'seed_mode': case['seed_mode'],
            'script': [(p['op'], p['wait'], p['gap']) for p in case['script']][:12]}
