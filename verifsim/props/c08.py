"""C08 -- MemBlock/RomBlock behave as arrays under every history of reads and writes.

World: one memory configuration per run (bitwidth 1..70, addrwidth 1..6, rarely 65..70 with a
sparse address set; 1..3 read ports, 1..2 write ports; initial contents; ROM variants with
list / dict / function data) and a tape of per-cycle port operations biased to collide
(read-during-write of one address, write-after-write, enable low with changing data,
never-written addresses). Replicas: Simulation, FastSimulation, CompiledSimulation,
Simulation(synthesize -> optimize) and the exported Verilog under VSim, stepped under a
scheduler-chosen interleaving. A fixed covering walk drives every (content, operation) pair
of the 2-word x 1-bit memory (exhaustive for that space).
Faults: reject_step; storage_poke (the dict returned by inspect_mem is documented to alias
simulator state: it is mutated between cycles, the same mutation is applied to the model).
Oracle: a dict model -- a read returns the word as of the end of the previous cycle (else
initial, else 0), enabled writes land at the end of the cycle, disabled writes do nothing;
final inspect_mem equals the model.
"""
import copy
import hashlib

from .. import gen, world, replica, transforms, common
from ..common import Violation, HarnessError, mask

ID = 'C08'
LEVEL = 'exploration'
RUN_TIMEOUT_S = 90.0
MIN_BUDGET = 200

TIERS = {
    'quick': {'runs': 20000, 'classes': 8, 'budget_s': 60},
    'thorough': {'runs': 200000, 'classes': 32, 'budget_s': 1100},
}

COMPONENTS = {'real': ['MemBlock/RomBlock construction API', 'pyrtl.Simulation', 'pyrtl.FastSimulation',
                       'pyrtl.CompiledSimulation', 'synthesize + optimize', 'output_to_verilog'],
              'stub': ['dict memory model (oracle)', 'VSim Verilog-subset interpreter (peer)']}


def gen_case(streams, tier):
    g = streams['gen']
    rom = g.random() < 0.2
    covering = (not rom) and g.random() < 0.06
    if covering:
        cfg = {'bw': 1, 'aw': 1, 'R': 1, 'W': 1, 'rom': None, 'init': {}, 'sparse': None,
               'variant': 'plain'}
    else:
        wide = (not rom) and g.random() < 0.08
        mid = (not rom) and (not wide) and g.random() < 0.2
        aw = g.choice([65, 66, 70]) if wide else (g.choice([9, 10, 12, 16, 32]) if mid
                                                  else g.randint(1, 6))
        bw = g.choice([1, 2, 3, 7, 8, 8, 16, 31, 32, 33, 63, 64, 65, 70])
        cfg = {'bw': bw, 'aw': aw, 'R': g.randint(1, 3), 'W': 0 if rom else g.randint(1, 2),
               'rom': None, 'init': {}, 'sparse': None, 'variant': 'plain'}
        if wide:
            base = g.getrandbits(aw)
            cfg['sparse'] = sorted({base, base ^ (1 << 64), g.getrandbits(aw), 0, mask(aw),
                                    g.getrandbits(63)})
        elif mid:
            # addresses that fall into one bucket of a 256-bucket hash map, and neighbours
            base = g.getrandbits(8)
            cfg['sparse'] = sorted({base, base + 256, (base + 512) & mask(aw), base ^ 1, 0,
                                    mask(aw), g.getrandbits(aw)})
        if not rom and not covering:
            cfg['variant'] = g.choice(['plain', 'plain', 'registered', 'conditional'])
        if rom:
            kind = g.choice(['list', 'dict', 'func'])
            size = 1 << aw
            if kind == 'list':
                pad = g.random() < 0.4
                ln = size if not pad else g.randint(0, size)
                cfg['rom'] = {'kind': 'list', 'data': [gen.rand_val(g, bw) for _ in range(ln)], 'pad': pad}
            elif kind == 'dict':
                pad = g.random() < 0.4
                keys = list(range(size))
                if pad:
                    keys = g.sample(keys, g.randint(0, size))
                cfg['rom'] = {'kind': 'dict', 'data': [[k, gen.rand_val(g, bw)] for k in sorted(keys)], 'pad': pad}
            else:
                cfg['rom'] = {'kind': 'func', 'data': [g.getrandbits(min(bw, 60)) | 1, g.getrandbits(min(bw, 60))], 'pad': False}
        elif g.random() < 0.6:
            for _ in range(g.randint(1, 4)):
                cfg['init'][str(_addr(g, cfg))] = gen.rand_val(g, bw)
    labels = ['sim', 'fast']
    if g.random() < (0.3 if tier == 'quick' else 0.4):
        labels.append('compiled')
    if cfg['bw'] <= 8 and cfg['aw'] <= 6 and g.random() < 0.5:
        labels.append('synthopt')
    if cfg['aw'] <= 6 and g.random() < 0.4:
        labels.append('verilog')
    if g.random() < 0.3:
        labels.append('optcopy')      # optimize(update_working_block=False): the pass on a copy
    if cfg['aw'] > 8 and 'compiled' not in labels and g.random() < 0.5:
        labels.append('compiled')
    if g.random() < 0.25:
        labels.append(g.choice(['sim#2', 'fast#2']))     # a second instance of one class
    if not rom and not covering and cfg.get('variant', 'plain') == 'plain' and cfg['W'] and g.random() < 0.3:
        cfg['second_mem'] = True     # another memory of the same shape, driven at the same addresses
    i = streams['inputs']
    if covering:
        tape = covering_tape()
    else:
        tape = gen_tape(i, cfg, i.randint(6, 40 if tier == 'thorough' else 24))
    f = streams['faults']
    faults = []
    plain_py = not rom and not covering and cfg.get('variant', 'plain') == 'plain' and cfg['W'] \
        and all(l.split('#')[0] in ('sim', 'fast') for l in labels)
    if plain_py and f.random() < 0.3:
        # an auxiliary ROM without padding, addressed by ra0 ^ wa0: a stimulus that reads one of
        # its holes is refused by the simulator in the middle of a step that may also carry an
        # enabled write (fault 'rom_hole_read'; the step is not a cycle)
        k = min(cfg['aw'], 3)
        holes = sorted(f.sample(range(1 << k), f.randint(1, max(1, (1 << k) // 3)))) if k else []
        if holes and len(holes) < (1 << k):
            cfg['aux_rom'] = {'k': k, 'holes': holes, 'mul': f.getrandbits(8) | 1,
                              'add': f.getrandbits(8)}
            clean = []
            for cyc in tape:
                if ((cyc['ra0'] ^ cyc['wa0']) & mask(k)) in holes:
                    faults.append({'kind': 'reject_step', 'at': len(clean), 'wire': None,
                                   'value': 'rom_hole', 'inputs': dict(cyc), 'replica': None})
                else:
                    clean.append(cyc)
            tape = clean or tape[:0]
    cfg['const_off_port'] = (not covering) and f.random() < 0.3
    if not covering and tape and f.random() < 0.3:
        # one more read port whose address is a constant (a Python int in the user's code)
        cfg['const_read'] = f.choice([c['wa0'] for c in tape if 'wa0' in c] or [0]) if cfg['W'] else _addr(f, cfg)
    if plain_py and tape and f.random() < 0.25:
        # a planted rtl_assert on we0 (or on its complement): it fires in cycles with (without)
        # an enabled write; the caller catches it and keeps stepping
        cfg['assert'] = f.choice(['we0', 'not_we0'])
    if tape and f.random() < 0.3:
        port = f.choice(['ra0'] + (['wa0', 'wd0'] if cfg['W'] else []))
        w = cfg['bw'] if port == 'wd0' else cfg['aw']
        faults.append({'kind': 'reject_step', 'at': f.randrange(len(tape)), 'wire': port,
                       'value': world.bad_value(f, w) if f.random() < 0.6 else 'missing',
                       'replica': None})
    if cfg['W'] and cfg.get('variant', 'plain') == 'plain' and 'compiled' not in labels \
            and 'verilog' not in labels and not cfg.get('second_mem') and tape and f.random() < 0.4:
        for _ in range(f.randint(1, 2)):
            faults.append({'kind': 'storage_poke', 'at': f.randrange(len(tape)),
                           'addr': _addr(f, cfg), 'value': gen.rand_val(f, cfg['bw'])})
    cfg['default'] = 0
    if not rom and not covering and set(labels) <= {'sim', 'fast'} and g.random() < 0.4:
        cfg['default'] = g.choice([1, 1, mask(cfg['bw'])])
        if cfg.get('variant') == 'registered':
            # must also fit the 1-bit and address-wide port registers; with two ports both
            # would start enabled at one address (an undefined double write)
            cfg['default'] = 1 if cfg['W'] == 1 else 0
    case = {'prop': ID, 'cfg': cfg, 'labels': labels, 'tape': tape, 'faults': faults,
            'covering': covering, 'sched': world.gen_sched(streams)}
    case['interleave'] = replica.gen_interleaving(streams['sched'], labels, len(tape),
                                                  [x['at'] for x in faults])
    return case


def _addr(rng, cfg):
    if cfg['sparse']:
        return rng.choice(cfg['sparse'])
    amax = mask(cfg['aw'])
    return rng.choice([0, amax, rng.randint(0, amax), rng.randint(0, min(amax, 3))])


def gen_tape(rng, cfg, n):
    tape = []
    hot = [_addr(rng, cfg) for _ in range(3)]
    prev = None
    for _ in range(n):
        c = {}
        used = []
        for w in range(cfg['W']):
            r = rng.random()
            if r < 0.5:
                a = rng.choice(hot)
            elif r < 0.7 and prev is not None:
                a = prev.get('wa0', hot[0])
            else:
                a = _addr(rng, cfg)
            en = 1 if rng.random() < 0.65 else 0
            if en and a in used:
                # two enabled writes to one address in one cycle are undefined: separate them
                alts = [x for x in (hot + [_addr(rng, cfg) for _ in range(4)]) if x not in used]
                if alts:
                    a = alts[0]
                else:
                    en = 0
            if en:
                used.append(a)
            c['wa%d' % w] = a
            c['wd%d' % w] = gen.rand_val(rng, cfg['bw'])
            c['we%d' % w] = en
            if cfg.get('variant') == 'conditional':
                c['c%d' % w] = 1 if rng.random() < 0.6 else 0
        for r_ in range(cfg['R']):
            r = rng.random()
            if r < 0.4 and cfg['W']:
                a = c['wa0']                     # read-during-write of the same address
            elif r < 0.6 and prev is not None and cfg['W']:
                a = prev['wa0']                  # read the word written last cycle
            elif r < 0.8:
                a = rng.choice(hot)
            else:
                a = _addr(rng, cfg)
            c['ra%d' % r_] = a
        tape.append(c)
        prev = c
    return tape


def covering_tape():
    """Every (content, operation) pair of a 2-word x 1-bit memory, each reached by explicit
    set-up writes: 4 contents x 16 operations."""
    tape = []
    for content in range(4):
        for op in range(16):
            wa, wd, we, ra = (op >> 3) & 1, (op >> 2) & 1, (op >> 1) & 1, op & 1
            tape.append({'wa0': 0, 'wd0': content & 1, 'we0': 1, 'ra0': 0})
            tape.append({'wa0': 1, 'wd0': (content >> 1) & 1, 'we0': 1, 'ra0': 1})
            tape.append({'wa0': wa, 'wd0': wd, 'we0': we, 'ra0': ra})
            tape.append({'wa0': 0, 'wd0': 0, 'we0': 0, 'ra0': wa})       # observe the effect
    return tape


def build(cfg):
    import pyrtl
    from ..netlist import rom_pyrtl_data
    blk = pyrtl.Block()
    with pyrtl.set_working_block(blk, no_sanity_check=True):
        if cfg['rom']:
            mem = pyrtl.RomBlock(cfg['bw'], cfg['aw'], rom_pyrtl_data(cfg['rom'], cfg['bw']),
                                 name='mem', max_read_ports=None,
                                 pad_with_zeros=cfg['rom'].get('pad', False))
        else:
            mem = pyrtl.MemBlock(cfg['bw'], cfg['aw'], name='mem', max_read_ports=None,
                                 max_write_ports=None)
        variant = cfg.get('variant', 'plain')
        ports = []
        for w in range(cfg['W']):
            wa = pyrtl.Input(cfg['aw'], 'wa%d' % w)
            wd = pyrtl.Input(cfg['bw'], 'wd%d' % w)
            we = pyrtl.Input(1, 'we%d' % w)
            if variant == 'registered':
                # the write port is fed straight from registers (one cycle after the inputs)
                ra_, rd_, re_ = (pyrtl.Register(cfg['aw'], 'wa_r%d' % w),
                                 pyrtl.Register(cfg['bw'], 'wd_r%d' % w),
                                 pyrtl.Register(1, 'we_r%d' % w))
                ra_.next <<= wa
                rd_.next <<= wd
                re_.next <<= we
                mem[ra_] <<= pyrtl.MemBlock.EnabledWrite(rd_, re_)
            elif variant == 'conditional':
                ports.append((pyrtl.Input(1, 'c%d' % w), wa, wd, we))
            else:
                mem[wa] <<= pyrtl.MemBlock.EnabledWrite(wd, we)
        if ports:
            with pyrtl.conditional_assignment:
                for c, wa, wd, we in ports:
                    with c:
                        mem[wa] |= pyrtl.MemBlock.EnabledWrite(wd, we)
        mem2 = None
        if cfg.get('second_mem'):
            mem2 = pyrtl.MemBlock(cfg['bw'], cfg['aw'], name='mem_b', max_read_ports=None,
                                  max_write_ports=None)
            # same address and enable as port 0 of the first memory, complemented data
            mem2[blk.wirevector_by_name['wa0']] <<= pyrtl.MemBlock.EnabledWrite(
                ~blk.wirevector_by_name['wd0'], blk.wirevector_by_name['we0'])
        for r in range(cfg['R']):
            ra = pyrtl.Input(cfg['aw'], 'ra%d' % r)
            o = pyrtl.Output(cfg['bw'], 'rd%d' % r)
            o <<= mem[ra]
            if r == 0 and cfg.get('aux_rom'):
                ax = cfg['aux_rom']
                data = {a: (ax['mul'] * a + ax['add']) & mask(cfg['bw'])
                        for a in range(1 << ax['k']) if a not in ax['holes']}
                aux = pyrtl.RomBlock(cfg['bw'], ax['k'], data, name='aux', asynchronous=True,
                                     max_read_ports=None)
                axo = pyrtl.Output(cfg['bw'], 'ax0')
                axo <<= aux[(ra ^ blk.wirevector_by_name['wa0'])[:ax['k']]]
            if mem2 is not None:
                o2 = pyrtl.Output(cfg['bw'], 'sd%d' % r)
                o2 <<= mem2[ra]
        if cfg.get('const_off_port') and cfg['W'] and not cfg['rom'] and cfg.get('variant', 'plain') == 'plain':
            # one more write port, switched off for good by a constant-0 enable
            mem[blk.wirevector_by_name['wa0']] <<= pyrtl.MemBlock.EnabledWrite(
                ~blk.wirevector_by_name['wd0'], enable=pyrtl.Const(0, bitwidth=1))
        if cfg.get('const_read') is not None:
            ko = pyrtl.Output(cfg['bw'], 'kd0')
            ko <<= mem[pyrtl.Const(cfg['const_read'], bitwidth=cfg['aw'])]
        if cfg.get('assert'):
            we0 = blk.wirevector_by_name['we0']
            if cfg['assert'] == 'we0':
                pyrtl.rtl_assert(we0, common.PlantedAssertion('planted'))
            else:
                nwe = pyrtl.WireVector(1, 'nwe0')
                nwe <<= ~we0
                pyrtl.rtl_assert(nwe, common.PlantedAssertion('planted'))
    return blk, mem


class Model(object):
    def __init__(self, cfg):
        from ..netlist import rom_func
        self.cfg = cfg
        self.rom = rom_func(cfg['rom'], cfg['bw']) if cfg['rom'] else None
        self.mem = {int(a): v for a, v in cfg['init'].items()}
        self.mem2 = {}
        self.prev = None
        dv = cfg.get('default', 0)
        if cfg.get('variant') == 'registered' and dv:
            # port registers without reset value start at default_value
            self.prev = {}
            for w in range(cfg['W']):
                self.prev.update({'wa%d' % w: dv, 'wd%d' % w: dv, 'we%d' % w: dv})

    def step(self, cyc):
        out = {}
        for r in range(self.cfg['R']):
            a = cyc['ra%d' % r]
            out['rd%d' % r] = self.rom(a) if self.rom else self.mem.get(a, self.cfg.get('default', 0))
            if self.cfg.get('second_mem'):
                out['sd%d' % r] = self.mem2.get(a, self.cfg.get('default', 0))
            if r == 0 and self.cfg.get('aux_rom'):
                ax = self.cfg['aux_rom']
                aa = (a ^ cyc['wa0']) & mask(ax['k'])
                if aa in ax['holes']:
                    raise common.RomHole(aa)
                out['ax0'] = (ax['mul'] * aa + ax['add']) & mask(self.cfg['bw'])
        if self.cfg.get('const_read') is not None:
            ka = self.cfg['const_read']
            out['kd0'] = self.rom(ka) if self.rom else self.mem.get(ka, self.cfg.get('default', 0))
        variant = self.cfg.get('variant', 'plain')
        if variant == 'registered':
            src = self.prev          # the port registers hold last cycle's inputs (0 at reset)
            if src is not None:
                for w in range(self.cfg['W']):
                    if src['we%d' % w]:
                        self.mem[src['wa%d' % w]] = src['wd%d' % w]
            self.prev = cyc
        elif variant == 'conditional':
            for w in range(self.cfg['W']):
                if cyc['c%d' % w]:           # first branch whose predicate holds
                    if cyc['we%d' % w]:
                        self.mem[cyc['wa%d' % w]] = cyc['wd%d' % w]
                    break
        else:
            if self.cfg.get('second_mem') and cyc['we0']:
                self.mem2[cyc['wa0']] = ~cyc['wd0'] & mask(self.cfg['bw'])
            for w in range(self.cfg['W']):
                if cyc['we%d' % w]:
                    self.mem[cyc['wa%d' % w]] = cyc['wd%d' % w]
        return out


class VReplica(object):
    """The exported Verilog under VSim, presented with the Replica interface."""

    def __init__(self, blk, cfg, mem_id=None):
        import io
        import pyrtl
        from ..vsim import VSim
        buf = io.StringIO()
        with pyrtl.set_working_block(blk, no_sanity_check=True):
            pyrtl.output_to_verilog(buf, add_reset=False, block=blk)
        self.text = buf.getvalue()
        self.vs = VSim(self.text)
        mems = self.vs.memory_names()
        if not cfg['rom']:
            want = 2 if cfg.get('second_mem') else 1
            if len(mems) != want:
                raise HarnessError('expected %d memory arrays in the Verilog, got %r' % (want, mems))
            first = 'mem_%d' % mem_id
            if first not in mems:
                raise HarnessError('no array %s in the Verilog: %r' % (first, mems))
            for a, v in cfg['init'].items():
                self.vs.poke_mem(first, int(a), v)
        self.rows = []
        self.pos = 0
        self.label = 'verilog'
        self.sim = None

    def advance(self, tape, n, method):
        for c in tape[self.pos:self.pos + n]:
            outs = self.vs.cycle(dict(c))
            self.rows.append(outs)
        self.pos += n

    def value(self, name, cycle):
        return self.rows[cycle][name]


def run(case, res):
    import pyrtl
    cfg = case['cfg']
    sched = case['sched']
    world.setup_world(sched)
    blk, mem = build(cfg)
    world.common.iter_seam.install(sched.get('iter_policy'), sched.get('iter_seed', 0))
    init = {'regs': {}, 'mems': ({} if cfg['rom'] or not cfg['init'] else {'m': dict(cfg['init'])}),
            'default': cfg.get('default', 0)}
    dv0 = cfg.get('default', 0)
    reps = []
    tags0 = []
    if cfg['aw'] > 64:
        tags0.append('mem_aw>64')
    for lab in case['labels']:
        try:
            if lab == 'synthopt':
                syn = pyrtl.synthesize(update_working_block=False, block=blk)
                with transforms.quiet():
                    pyrtl.optimize(block=syn)
                live = replica.Live.from_block(syn)
                if not cfg['rom']:
                    key = [k for k, m_ in sorted(live.mems.items()) if m_.name == 'mem'][0]
                    live.mems = {'m': live.mems[key]}
                    live.sim_mems = {'m': live.sim_mems[key]}
                r = replica.Replica(lab, replica.make_sim('sim', live, init, tracer=None))
                r.mem = None if cfg['rom'] else live.mems['m']
                r.keymem = live.sim_mems.get('m')
            elif lab == 'optcopy':
                with transforms.quiet():
                    oc = pyrtl.optimize(update_working_block=False, block=blk)
                live = replica.Live.from_block(oc)
                if not cfg['rom']:
                    key = [k for k, m_ in sorted(live.mems.items()) if m_.name == 'mem'][0]
                    live.mems = {'m': live.mems[key]}
                    live.sim_mems = {'m': live.sim_mems[key]}
                r = replica.Replica(lab, replica.make_sim('sim', live, init, tracer=None))
                r.mem = None if cfg['rom'] else live.mems['m']
            elif lab == 'verilog':
                r = VReplica(blk, cfg, mem.id)
            else:
                live = replica.Live(blk, {} if cfg['rom'] else {'m': mem})
                r = replica.Replica(lab, replica.make_sim(lab.split('#')[0], live, init, tracer=None))
                r.mem = None if cfg['rom'] else mem
        except HarnessError:
            raise
        except Exception as e:
            return Violation('constructor', 'replica_refuses_valid_design',
                             {'replica': lab, 'exc': repr(e)[:300]}, [lab] + tags0)
        reps.append(r)
    model = Model(cfg)
    exp = []
    tape = case['tape']
    pokes = {}
    for f in case['faults']:
        if f['kind'] == 'storage_poke':
            pokes.setdefault(f['at'], []).append(f)
    # model trace with pokes applied at their cycle boundary
    for ci, cyc in enumerate(tape):
        for f in pokes.get(ci, []):
            model.mem[f['addr']] = f['value']
        try:
            exp.append(model.step(cyc))
        except common.RomHole:
            raise common.Inconclusive('a cycle of the tape reads a hole of the auxiliary ROM')
    faults = {}
    for f in case['faults']:
        if f['kind'] == 'reject_step':
            faults.setdefault(f['at'], []).append(f)

    def before(r, pos):
        for f in pokes.get(pos, []):
            if r.label.split('#')[0] in ('sim', 'fast', 'synthopt', 'optcopy'):
                d = r.sim.inspect_mem(r.mem)
                d[f['addr']] = f['value']
                res.faults.hit('storage_poke')
                res.log.log('fault', 'poke', [r.label, pos], None)
        return None

    def on_cycle(c):
        res.cycles += 1
        for r in reps:
            for name, ev in exp[c].items():
                got = r.value(name, c)
                if got != ev:
                    return Violation('read_value', 'value_mismatch',
                                     {'replica': r.label, 'port': name, 'cycle': c, 'expected': ev,
                                      'got': got, 'addr': tape[c]['ra' + name[2:]]},
                                     [r.label] + tags0 + (['rom:' + cfg['rom']['kind']] if cfg['rom'] else []))
        for r in reps:
            # the user keeps ONE inspect_mem view of the compiled simulator from the start and
            # looks words up through it as the run goes on (what is read here is not judged: the
            # replica may be a few cycles ahead); the final comparison goes through this view
            if r.label == 'compiled' and not cfg['rom'] and r.sim is not None:
                if getattr(r, 'view', None) is None:
                    r.view = r.sim.inspect_mem(r.mem)
                    res.probes.hit('one_inspect_mem_view_kept_for_the_whole_run')
                for k in ('wa0', 'ra0'):
                    if k in tape[c]:
                        try:
                            r.view[tape[c][k]]
                        except Exception:
                            pass
        if cfg['W']:
            for w in range(cfg['W']):
                for r_ in range(cfg['R']):
                    if tape[c]['we%d' % w] and tape[c]['wa%d' % w] == tape[c]['ra%d' % r_]:
                        res.probes.hit('read_during_write_same_addr')
                if not tape[c]['we%d' % w]:
                    res.probes.hit('disabled_write')
        return None

    real = [r for r in reps if r.label != 'verilog']
    v = replica.run_interleaved(reps, tape, case['interleave'],
                                faults, res, on_cycle, before)
    fired = sum(getattr(r, 'fired', 0) for r in reps)
    if fired:
        res.faults.hit('assertion_fired_and_caught', fired)
    if v:
        if 'reject' in v.oracle and v.detail.get('sim') == 'verilog':
            raise HarnessError('reject fault routed to the Verilog replica')
        v.tags = sorted(set(v.tags + tags0))
        return v
    if not cfg['rom']:
        for r in reps:
            if r.label == 'verilog':
                got = r.vs.memory_dict(r.vs.memory_names()[0])
                for a, val in model.mem.items():
                    if got.get(a, 0) != val:
                        return Violation('memory_equal', 'content_mismatch',
                                         {'replica': 'verilog', 'addr': a, 'expected': val,
                                          'got': got.get(a, 0)}, ['verilog'] + tags0)
                continue
            got = r.sim.inspect_mem(r.mem)
            if getattr(r, 'view', None) is not None:
                got = r.view
            addrs = set(model.mem.keys())
            if r.label != 'compiled':
                addrs |= set(got.keys())
            for a in sorted(addrs):
                try:
                    gv = got[a] if r.label == 'compiled' else got.get(a, dv0)
                except Exception as e:
                    return Violation('memory_equal', 'inspect_mem_raises',
                                     {'replica': r.label, 'addr': a, 'exc': repr(e)[:200]},
                                     [r.label] + tags0)
                if gv != model.mem.get(a, dv0):
                    return Violation('memory_equal', 'content_mismatch',
                                     {'replica': r.label, 'addr': a, 'expected': model.mem.get(a, dv0),
                                      'got': gv}, [r.label] + tags0)
            res.probes.hit('final_words_checked', len(addrs))
    for r in reps:
        r.sim = None
        res.probes.hit('replica:' + r.label)
    if case.get('covering'):
        res.probes.hit('covering_walk_2x1_exhaustive')
    res.probes.hit('variant:' + cfg.get('variant', 'plain'))
    if 8 < cfg['aw'] <= 64:
        res.probes.hit('aw_9_to_64')
    if cfg['rom']:
        res.probes.hit('rom:' + cfg['rom']['kind'])
    res.shape = hashlib.sha1(repr([cfg['bw'], cfg['aw'], cfg['R'], cfg['W'], bool(cfg['rom']),
                                   case['labels']]).encode()).hexdigest()[:12]
    res.sched = hashlib.sha1(repr(case['interleave']).encode()).hexdigest()[:12]
    res.nontrivial = res.cycles > 0
    return None


def candidates(case):
    tape = case['tape']
    for k in range(len(tape) - 1, 0, -1):
        c = copy.deepcopy(case)
        c['tape'] = tape[:k]
        c['faults'] = [f for f in c['faults'] if f['at'] < k]
        c['interleave'] = [[i, k, 'step'] for i in range(len(c['labels']))]
        yield c
    # drop one cycle from the front/middle
    for i in range(len(tape) - 1):
        c = copy.deepcopy(case)
        del c['tape'][i]
        c['faults'] = [dict(f, at=f['at'] - 1) if f['at'] > i else f for f in c['faults']
                       if f['at'] != i]
        c['interleave'] = [[j, len(c['tape']), 'step'] for j in range(len(c['labels']))]
        yield c
    if len(case['labels']) > 1:
        for lab in list(case['labels']):
            c = copy.deepcopy(case)
            c['labels'] = [x for x in c['labels'] if x != lab]
            c['interleave'] = [[j, len(tape), 'step'] for j in range(len(c['labels']))]
            yield c
    for i in range(len(case['faults'])):
        c = copy.deepcopy(case)
        del c['faults'][i]
        yield c
    cfg = case['cfg']
    if cfg['init']:
        c = copy.deepcopy(case)
        c['cfg']['init'] = {}
        yield c


def sample_of(case):
    return {'cfg': {k: (v if k != 'rom' else (v and v['kind'])) for k, v in case['cfg'].items()},
            'labels': case['labels'], 'tape': case['tape'][:3], 'n_cycles': len(case['tape']),
            'faults': case['faults'], 'interleave': case['interleave'][:6]}
