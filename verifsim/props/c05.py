"""C05 -- exported Verilog (module and testbench) reproduces the simulation.

World: an exportable design (all ops but nand, memories with addrwidth <= 6, fully defined
ROMs, names that need sanitising, Verilog keywords as names, registers with reset values),
add_reset in {True, False, 'asynchronous'}; the text of output_to_verilog is executed by
VSim (IEEE 1364-2001 width rules, non-blocking assignment), the text of
output_verilog_testbench is read back by a line reader.
Schedule: hash seed (sanitizer numbering, sort ties), statement order, which simulator
produced the trace. Injected events: a reset (synchronous cycle or asynchronous edge) before
the run from garbage register state and again at a scheduler-chosen later cycle.
Oracles: (a) VSim Outputs == RefSim(script) per cycle from the reset state; (b) the
testbench's per-cycle input assignments equal the traced inputs, every register's initial
assignment equals the value that simulator started from, every memory word's initial value
likewise (ROM words must keep romdata); (c) VSim driven by the parsed testbench reproduces
the simulator's Output trace.
I/O and register names that the sanitizer renames are matched by elimination (at most one
such name per class is generated), so the mapping is never taken from PyRTL.
"""
import copy
import hashlib
import io
import random

from .. import gen, shrink, world, replica
from ..common import Violation, HarnessError, mask
from ..netlist import script_shape, rom_func
from ..refsim import DoubleWrite
from ..vsim import VSim, Testbench

ID = 'C05'
LEVEL = 'exploration'
RUN_TIMEOUT_S = 60.0
MIN_BUDGET = 200

TIERS = {
    'quick': {'runs': 24000, 'classes': 8, 'budget_s': 60},
    'thorough': {'runs': 500000, 'classes': 32, 'budget_s': 1100},
}

COMPONENTS = {'real': ['output_to_verilog', 'output_verilog_testbench', '_VerilogSanitizer',
                       'Simulation / FastSimulation / CompiledSimulation as trace sources'],
              'stub': ['VSim (Verilog-subset interpreter, peer)', 'testbench reader',
                       'RefSim (reference behaviour of the design)']}

ASSUMPTIONS = ['Verilog semantics are those implemented in verifsim/vsim.py (IEEE 1364-2001 '
               'expression widths, unsized decimals read as max(32, needed) bits); no external '
               'Verilog simulator exists in the sandbox']

VALID_ID = __import__('re').compile(r'^[_A-Za-z][_a-zA-Z0-9$]*$')


def gen_case(streams, tier):
    g = streams['gen']
    cfg = gen.make_cfg(nets=(2, 16), ops='w~&|^+-*<>=xcs', names='awkward',
                       awk_limit={'i': 1, 'o': 1, 'r': 1, 'mem': 0},
                       awk_exclude=('tmp', 'a b', 'é'), awk_internal=0.3,
                       class_pool=['bit', 'small', 'mid', 'w32', 'w64', 'w128'],
                       mem_wide_aw=0.0, mem_aw=(1, 5), rom_aw_max=4, regs=(0, 3),
                       dup_mem_name_prob=0.25, roms=(0, 2), awk_pair_prob=0.3, share_romdata_prob=0.5,
                       inputs=g.choice([(1, 4), (1, 4), (0, 0)]))
    script = gen.gen_script(g, cfg)
    stage = None
    if g.random() < 0.3:
        # the design is exported once, then extended on the same Block, then exported for real
        s2, st = gen.add_late_cone(g, script)
        if s2 is not None:
            script, stage = s2, st
    ncyc = streams['inputs'].randint(2, 10)
    kind = g.choice(['sim', 'sim', 'fast', 'fast', 'compiled'] if g.random() < 0.5 else ['sim', 'fast'])
    has_mem = any(not m.get('rom') for m in script['mems'])
    init = gen.gen_init(g, script, allow_default=(kind != 'compiled'))
    add_reset = g.choice([True, False, 'asynchronous'])
    f = streams['faults']
    start = 'direct'
    if add_reset and f.random() < 0.5:
        start = 'by_reset'
    second = None
    if add_reset and f.random() < 0.3:
        second = f.randrange(ncyc)
    return {'prop': ID, 'script': script, 'init': init, 'kind': kind, 'add_reset': add_reset,
            'start': start, 'second_reset': second, 'garbage_seed': f.getrandbits(32),
            'cycles': gen.gen_inputs(streams['inputs'], script, ncyc),
            'stage': stage,
            # exports that fail first: the file object raises OSError on its k-th write, and a
            # padded ROM is exported once while it still lacks pad_with_zeros (refused), then
            # repaired in place
            'fail_first': {'k': f.randrange(0, 60), 'rom_repair': f.random() < 0.5}
            if f.random() < 0.35 else None,
            # a first simulator is constructed on the very SimulationTrace of the traced run, from
            # another start state, and abandoned before its first step
            'abandoned_first': {'kind': f.choice(['sim', 'fast']),
                                'init': gen.gen_init(random.Random(f.getrandbits(32)), script,
                                                     allow_default=True)}
            if f.random() < 0.3 else None,
            'sched': world.gen_sched(streams)}


def verilog_names(script, vs, tags):
    """Map PyRTL I/O and register names to module names: valid identifiers that are not
    reserved keep their name; at most one name per class is left and is matched by
    elimination (and width)."""
    out = {}
    for cls, vkind in (('I', 'input'), ('O', 'output'), ('R', 'reg')):
        ours = [(w['n'], w['w']) for w in script['wires'] if w['k'] == cls]
        theirs = {n: vs.sig[n] for n, k in vs.kind.items() if k == vkind and n not in ('clk', 'rst')}
        left = []
        for n, w in ours:
            if n in theirs and theirs[n] == w:
                out[n] = n
                del theirs[n]
            else:
                left.append((n, w))
        if len(left) > 1 or len(left) != len(theirs):
            if len(left) == len(theirs) and sorted(w for _n, w in left) == sorted(theirs.values()) \
                    and len(set(w for _n, w in left)) == len(left):
                for n, w in left:
                    for tn, tw in list(theirs.items()):
                        if tw == w:
                            out[n] = tn
                            del theirs[tn]
                continue
            return None, Violation('module_interface', 'ports_do_not_match_design',
                                   {'class': cls, 'unmatched_design': left,
                                    'unmatched_module': sorted(theirs.items())}, tags)
        if left:
            (n, w), (tn, tw) = left[0], list(theirs.items())[0]
            if w != tw:
                return None, Violation('module_interface', 'port_width', {'name': n, 'width': tw}, tags)
            out[n] = tn
    return out, None


def run(case, res):
    import pyrtl
    script = case['script']
    init = case['init']
    sched = case['sched']
    add_reset = case['add_reset']
    world.setup_world(sched)
    stage = None
    if case.get('stage'):
        def early_export(built):
            try:
                with pyrtl.set_working_block(built.block, no_sanity_check=True):
                    pyrtl.output_to_verilog(io.StringIO(), add_reset=add_reset, block=built.block)
                res.faults.hit('exported_before_extension')
            except pyrtl.PyrtlError:
                res.probes.hit('early_export_refused')
        stage = dict(case['stage'], hook=early_export)
    b = world.build_dut(script, sched, stage=stage)
    blk = b.block
    tags = ['add_reset:%s' % add_reset, 'start:' + case['start']] + \
        (['history:export_extend_export'] if stage else [])
    # ---- exports that fail, before the one that counts ---------------------------------------
    ff = case.get('fail_first')
    if ff:
        with pyrtl.set_working_block(blk, no_sanity_check=True):
            if ff.get('rom_repair'):
                short = [b.mems[i] for i, m in enumerate(script['mems'])
                         if m.get('rom') and m['rom'].get('pad') and m['rom']['kind'] in ('list', 'dict')
                         and len(m['rom']['data']) < (1 << m['aw'])]
                if short:
                    for mem in short:
                        mem.pad_with_zeros = False
                    try:
                        pyrtl.output_to_verilog(io.StringIO(), add_reset=add_reset, block=blk)
                    except pyrtl.PyrtlError:
                        res.faults.hit('export_refused_for_unpadded_rom_then_repaired')
                    finally:
                        for mem in short:
                            mem.pad_with_zeros = True
            try:
                pyrtl.output_to_verilog(world.FaultyWriter(ff['k']), add_reset=add_reset, block=blk)
            except OSError:
                res.faults.hit('writer_fault_before_export')
            except pyrtl.PyrtlError:
                pass
    # ---- export -------------------------------------------------------------------------
    buf = io.StringIO()
    try:
        with pyrtl.set_working_block(blk, no_sanity_check=True):
            pyrtl.output_to_verilog(buf, add_reset=add_reset, block=blk)
    except pyrtl.PyrtlError as e:
        res.probes.hit('export_refused')
        return None
    text = buf.getvalue()
    try:
        vs = VSim(text)
    except HarnessError as e:
        return Violation('module_text', 'not_in_documented_subset', {'err': str(e)[:300]}, tags)
    names, v = verilog_names(script, vs, tags)
    if v:
        return v
    rng = random.Random(case['garbage_seed'])
    regs = [(w['n'], w['w'], w.get('rv')) for w in script['wires'] if w['k'] == 'R']
    reset_vals = {n: (rv if rv is not None else 0) for n, w, rv in regs}
    memname = {i: 'mem_%d' % b.mems[i].id for i in range(len(script['mems']))}
    for i, m in enumerate(script['mems']):
        if memname[i] not in vs.mem:
            return Violation('module_text', 'memory_array_missing', {'mem': memname[i]}, tags)
        if m.get('rom'):
            f = rom_func(m['rom'], m['bw'])
            for a in range(1 << m['aw']):
                if vs.mem[memname[i]][2].get(a) != f(a):
                    return Violation('module_text', 'rom_initial_block_wrong',
                                     {'mem': memname[i], 'addr': a}, tags)
    # ---- (a) module vs reference from the reset state -------------------------------------
    init_a = {'regs': {}, 'mems': dict(init.get('mems', {})), 'default': 0}
    for k, d in init_a['mems'].items():
        for a, val in d.items():
            vs.poke_mem(memname[int(k)], int(a), val)
    tape = case['cycles']
    vin = lambda cyc, rst: dict({names[k]: v for k, v in cyc.items()}, **({'rst': rst} if add_reset else {}))
    if case['start'] == 'direct':
        for n, w, rv in regs:
            vs.set_reg(names[n], reset_vals[n])
    else:
        for n, w, rv in regs:
            vs.set_reg(names[n], rng.getrandbits(w))
        res.faults.hit('reset_from_garbage')
        if add_reset == 'asynchronous':
            vs.posedge_rst()
            vs.val['rst'] = 0
        else:
            vs.cycle(vin(tape[0], 1))
        # memory is whatever the module holds after that edge (an admissible start state)
        for i, m in enumerate(script['mems']):
            if not m.get('rom'):
                init_a['mems'][str(i)] = {str(a): v for a, v in vs.memory_dict(memname[i]).items()}
        for n, w, rv in regs:
            if vs.val[names[n]] != reset_vals[n]:
                return Violation('reset', 'register_not_at_reset_value_after_reset',
                                 {'reg': n, 'got': vs.val[names[n]], 'expected': reset_vals[n]}, tags)
    ref = world.ref_for(script, init_a)
    outs = [w['n'] for w in script['wires'] if w['k'] == 'O']
    for ci, cyc in enumerate(tape):
        try:
            ev = ref.step(cyc)
        except DoubleWrite:
            # documented undefined: nothing from this cycle on is judged, in any clause
            res.probes.hit('undefined_double_write')
            tape = tape[:ci]
            break
        second = case.get('second_reset') == ci
        if second and add_reset == 'asynchronous':
            # an asynchronous reset edge between cycles ci-1 and ci
            pass
        got = vs.cycle(vin(cyc, 1 if (second and add_reset is True) else 0))
        res.cycles += 1
        for o in outs:
            if got[names[o]] != ev[o]:
                return Violation('module_behaviour', 'value_mismatch',
                                 {'output': o, 'verilog_name': names[o], 'cycle': ci,
                                  'expected': ev[o], 'verilog': got[names[o]],
                                  'driver': _driver(script, o)}, tags + _tags(script, o))
        if second:
            res.faults.hit('second_reset')
            if add_reset == 'asynchronous':
                vs.posedge_rst()
                vs.val['rst'] = 0
            ref.force_regs(reset_vals)
    # ---- (b)+(c) testbench from a real simulator's trace ------------------------------------
    # the trace source starts from `init` (not the reset state): look for undefined double
    # writes under that state too
    ref_b = world.ref_for(script, init)
    for ci, cyc in enumerate(tape):
        try:
            ref_b.step(cyc)
        except DoubleWrite:
            res.probes.hit('undefined_double_write')
            tape = tape[:ci]
            break
    if not tape:
        return None
    kind = case['kind']
    live = replica.Live.from_built(b)
    try:
        ab = case.get('abandoned_first')
        tr_obj = None
        if ab:
            tr_obj = replica.make_sim(ab['kind'], live, ab['init'], tracer=None).tracer
            res.faults.hit('simulator_abandoned_on_the_same_trace')
        sim = replica.make_sim(kind, live, init, tracer=None, tracer_obj=tr_obj)
        n_ok = 0
        for cyc in tape:
            sim.step(dict(cyc))
            n_ok += 1
    except (pyrtl.PyrtlError, pyrtl.PyrtlInternalError) as e:
        raise HarnessError('trace source failed: %r' % (e,))
    tb = io.StringIO()
    with pyrtl.set_working_block(blk, no_sanity_check=True):
        if ff:
            try:
                pyrtl.output_verilog_testbench(world.FaultyWriter(ff['k'] // 2), sim.tracer, vcd=None,
                                               add_reset=add_reset, block=blk)
            except OSError:
                res.faults.hit('writer_fault_before_testbench')
            except pyrtl.PyrtlError:
                pass
        pyrtl.output_verilog_testbench(tb, sim.tracer, vcd=None, add_reset=add_reset, block=blk)
    tags_b = tags + ['trace:' + kind]
    try:
        t = Testbench(tb.getvalue())
    except HarnessError as e:
        return Violation('testbench_text', 'not_in_documented_subset', {'err': str(e)[:300]}, tags_b)
    dv = init.get('default', 0)
    if len(t.cycles) != len(tape):
        return Violation('testbench', 'cycle_count', {'tb': len(t.cycles), 'trace': len(tape)}, tags_b)
    widths = {w['n']: w['w'] for w in script['wires']}
    driven = {}        # an input reg holds its value until the testbench assigns it again
    for ci, cyc in enumerate(tape):
        want = {names[k]: (widths[k], v) for k, v in cyc.items()}
        for vn, (w, v) in t.cycles[ci].items():
            if vn not in want:
                return Violation('testbench', 'assignment_to_unknown_input', {'cycle': ci, 'name': vn}, tags_b)
            if w != want[vn][0] or v >= (1 << w):
                return Violation('testbench', 'input_literal_malformed',
                                 {'cycle': ci, 'name': vn, 'width': w, 'value': v}, tags_b)
            driven[vn] = v
        for vn, (w, v) in want.items():
            if driven.get(vn) != v:
                return Violation('testbench', 'input_assignments_differ_from_trace',
                                 {'cycle': ci, 'input': vn, 'testbench_drives': driven.get(vn),
                                  'trace': v}, tags_b)
    for n, w, rv in regs:
        started = init.get('regs', {}).get(n, rv if rv is not None else dv)
        if t.reg_init.get(names[n]) != started:
            return Violation('testbench', 'register_initial_value',
                             {'reg': n, 'tb': t.reg_init.get(names[n]), 'simulation_started_from': started,
                              'overridden': n in init.get('regs', {})}, tags_b)
    # replay the memory initialisation on a fresh module
    vs2 = VSim(text)
    for op in t.mem_ops:
        if op[1] not in vs2.mem:
            return Violation('testbench', 'unknown_memory', {'mem': op[1]}, tags_b)
        if op[0] == 'fill':
            for a in range(op[2]):
                vs2.poke_mem(op[1], a, op[3])
        else:
            vs2.poke_mem(op[1], op[2], op[3])
    for i, m in enumerate(script['mems']):
        words = vs2.memory_dict(memname[i])
        if m.get('rom'):
            f = rom_func(m['rom'], m['bw'])
            for a in range(1 << m['aw']):
                if words.get(a) != f(a):
                    return Violation('testbench', 'rom_word_overwritten',
                                     {'mem': memname[i], 'addr': a, 'tb_leaves': words.get(a),
                                      'romdata': f(a)}, tags_b + ['rom'])
        else:
            start_words = {int(a): v for a, v in init.get('mems', {}).get(str(i), {}).items()}
            for a in range(1 << m['aw']):
                exp = start_words.get(a, dv)
                if words.get(a) != exp:
                    return Violation('testbench', 'memory_initial_value',
                                     {'mem': memname[i], 'addr': a, 'tb': words.get(a),
                                      'simulation_started_from': exp}, tags_b)
    for name, val in t.reg_init.items():
        if name not in vs2.kind:
            return Violation('testbench', 'unknown_register', {'reg': name}, tags_b)
        vs2.set_reg(name, val)
    if add_reset:
        if t.rst_value != 0:
            return Violation('testbench', 'rst_not_held_low', {'rst': t.rst_value}, tags_b)
        vs2.val['rst'] = 0
    # (c) end to end (only meaningful when (b) holds, which it does here)
    held = {}
    for ci, cyc in enumerate(t.cycles):
        held.update({k: v[1] for k, v in cyc.items()})
        got = vs2.cycle(dict(held))
        for o in outs:
            tr = sim.tracer.trace[o][ci]
            if got[names[o]] != tr:
                return Violation('testbench_replay', 'value_mismatch',
                                 {'output': o, 'cycle': ci, 'trace': tr, 'verilog': got[names[o]]},
                                 tags_b)
    sim = None
    res.probes.hit('trace:' + kind)
    res.probes.hit('add_reset:%s' % add_reset)
    res.probes.hit('sanitised_names', sum(1 for k, v in names.items() if k != v))
    world.shape_probes(script, res.probes)
    res.shape = hashlib.sha1(script_shape(script).encode()).hexdigest()[:12]
    res.sched = hashlib.sha1(text.encode()).hexdigest()[:12]
    res.log.log('export', 'verilog', len(text), res.sched)
    res.nontrivial = res.cycles > 0
    return None


def _driver(script, name):
    src = None
    for n in script['nets']:
        if name in n['d']:
            src = n
    if src and src['op'] == 'w':
        for n in script['nets']:
            if src['a'][0] in n['d']:
                return {'op': n['op'], 'a': n['a']}
    return {'op': src['op'], 'a': src['a']} if src else None


def _tags(script, name):
    d = _driver(script, name)
    return ['op:' + d['op']] if d else []


def candidates(case):
    cyc = case['cycles']
    for k in range(len(cyc) - 1, 0, -1):
        c = copy.deepcopy(case)
        c['cycles'] = cyc[:k]
        if c.get('second_reset') is not None and c['second_reset'] >= k:
            c['second_reset'] = None
        yield c
    if case.get('second_reset') is not None:
        c = copy.deepcopy(case)
        c['second_reset'] = None
        yield c
    if case['start'] != 'direct':
        c = copy.deepcopy(case)
        c['start'] = 'direct'
        yield c
    if case['kind'] != 'sim':
        c = copy.deepcopy(case)
        c['kind'] = 'sim'
        yield c
    if case['sched'].get('iter_policy') or case['sched'].get('perm_seed') is not None:
        c = copy.deepcopy(case)
        c['sched'].update({'iter_policy': None, 'perm_seed': None, 'noise': 0})
        yield c
    for s in shrink.script_candidates(case['script']):
        c = copy.deepcopy(case)
        c['script'] = s
        c['init'] = shrink.remap_init(case['init'], s)
        c['cycles'] = shrink.remap_cycles(case['cycles'], s)
        if case.get('abandoned_first'):
            c['abandoned_first']['init'] = shrink.remap_init(case['abandoned_first']['init'], s)
        s.pop('_memremap', None)
        if case.get('stage'):
            c['stage'] = gen.restage(s)
        yield c
    if case.get('stage'):
        c = copy.deepcopy(case)
        c['stage'] = None
        yield c
    if case.get('fail_first'):
        c = copy.deepcopy(case)
        c['fail_first'] = None
        yield c
    if case.get('abandoned_first'):
        c = copy.deepcopy(case)
        c['abandoned_first'] = None
        yield c
    if case['init'].get('regs') or case['init'].get('mems') or case['init'].get('default'):
        for part in ('regs', 'mems', 'default'):
            c = copy.deepcopy(case)
            c['init'][part] = {} if part != 'default' else 0
            yield c
    for t in shrink.simplify_values(case['cycles']):
        c = copy.deepcopy(case)
        c['cycles'] = t
        yield c


def sample_of(case):
    return {'kind': case['kind'], 'add_reset': case['add_reset'], 'start': case['start'],
            'second_reset': case['second_reset'], 'n_nets': len(case['script']['nets']),
            'nets': [[n['op'], n['a'], n['d']] for n in case['script']['nets'][:8]],
            'cycles': case['cycles'][:2], 'init': case['init']}
