"""C17 -- timing, path and fan-out analyses equal their graph-theoretic definitions.

World: one API-built design (operators, concat, slices, select, Registers, MemBlocks with
read and write ports) described by a JSON "program": a list of statements, each with a stable
id, that refer to earlier results by id.  The real construction API is used (never
Block.add_net) because MemBlock.readport_nets / writeport_nets, which analysis.paths and the
memory delay estimate read, are only maintained by it.  Statement results are named after
their id ('i3', 'k4', 'r5', 'v9', 'o12'), helper wires keep their tmp names; with the name
indexers reset before each build every build of a program has the same names.

Schedule (the only dimension this property has): the same program is built K times, each time
after `install_hash_seam(seed)` + `reset_world()` (iteration order of every identity-hashed
set/dict) and analysed under a Block.__iter__ tie-break policy (None/lifo/fifo/random).  All
results, expressed by wire and net NAMES, must equal an independent computation on the
extracted name graph in every build (hence be schedule-invariant); critical_path results are
additionally compared across builds.

Oracles (none of them calls the code under test):
 timing      timing_map[w] = 0 for Input/Const/Register, else max over the driver's args + the
             driver's delay (memoised longest path; 'r' and '@' nets end a path); same per-net
             delay function as the TimingAnalysis instance got: an independently written copy
             of the default table, and a custom small-integer table (ties are frequent).
             max_length() = max of the map.
 critical    every (first_wire, path): first_wire is Input/Const/Register and read by path[0],
             each net's dest is read by the next net, no 'r'/'@' net, summed delay equals
             max_length() (exact for the integer table, 1e-9 relative for floats).  For the
             integer table the returned set must also be complete (all source-to-wire paths
             of maximal delay) and equal across schedules.
 max_freq    1e6 / (s*(L+189+194)) resp. 1e6 / (s*L + ffoverhead) with s = tech_in_nm/130
             (Dennard scaling as the docstring states: the 130nm-calibrated delays scale
             linearly with the feature size; a smaller technology is never estimated slower).
 fanout      number of argument positions, over all nets, that are the wire.
 paths       MY READING of analysis.paths' docstring: a path from src to dst is a list of
             DISTINCT nets n1..nk such that src is an argument of n1, the dest of n_i is an
             argument of n_(i+1), a write net '@' (which has no dest) is followed by a read
             net 'm' of the same memory, and the dest of nk is dst.  Paths traverse registers
             ('r' nets) and memories (write port -> any read port) -- "This also finds and
             returns the loop paths in the case of registers or memories that feed into
             themselves, i.e. paths[src][src] is not necessarily empty".  The path is simple:
             no net twice, it ends the first time it reaches dst, and it does not come back
             to src on the way (the code's own comment calls that "contains a loop ... so
             don't keep it").  A net reading src in two positions (a + a) counts once (a path
             is a list of nets).  paths(src, dst) must return exactly that set, without
             duplicates; paths() defaults to Inputs x Outputs; distance() must map exactly
             those paths to the sum of f.

Known finding on the unchanged tree: the post-filter of analysis.paths removes every path that
has a shorter returned path as a suffix; under reconvergent fan-out (y = (a & b) | a) that
drops legitimate simple paths -> oracle 'paths', class 'path_set_mismatch', tag
'reconvergent_fanout'.  Second finding: the DFS does not check the read net it appends after a
write net, so with two write ports a returned path can contain the same 'm' net twice ->
oracle 'paths', class 'non_simple_path'.
"""
import contextlib
import copy
import hashlib
import io
import math

from .. import common, world
from ..common import Violation, HarnessError, jdigest

ID = 'C17'
LEVEL = 'exploration'
RUN_TIMEOUT_S = 60.0
MIN_BUDGET = 400

# ~50 ms CPU per world (3 builds x (2 timing tables + all-pairs paths)); 7000 worlds are about
# 22 s on 16 idle cores
TIERS = {
    'quick': {'runs': 7000, 'classes': 8, 'budget_s': 60},
    'thorough': {'runs': 150000, 'classes': 32, 'budget_s': 1100},
}

RULE = ('one evaluation = one program built K times (K hash seeds x Block.__iter__ tie-break '
        'policies), every build judged against the independent graph computation for two delay '
        'tables, all fan-outs and all (src, dst) pairs; no cycles are simulated; distinct = '
        'distinct (netlist digest, schedule digest, event-log digest) tuples')

COMPONENTS = {
    'real': ['pyrtl.TimingAnalysis (timing_map, max_length, max_freq, critical_path)',
             'pyrtl.paths / PathsResult, pyrtl.distance, pyrtl.fanout',
             'Block.__iter__ (tie-break seam), Block.net_connections',
             'construction API: operators, concat, select, slices, Register, MemBlock ports'],
    'stub': ['name graph extracted from block.logic', 'memoised longest path with own delay tables',
             'critical-path enumeration', 'simple net path enumeration', 'argument-position count'],
}

EXPECTED_PROBES = ['builds', 'pairs_judged', 'reconvergent_pair', 'equal_delay_tie',
                   'register_loop_path', 'mem_write_read_path', 'dup_arg_net',
                   'iter_policy:lifo', 'iter_policy:fifo', 'iter_policy:random',
                   'iter_policy:None', 'table:default', 'table:custom']

MAXW = 16
PATH_CAP = 250           # per (src, dst): more simple paths than this -> pair not judged
WALK_CAP = 6000          # per src: size of the net-simple walk tree (cost of the code's DFS)
CP_LIMIT = 3000
BIN_OPS = ['&', '|', '^', 'nand', '+', '-', '*', '<', '>', '==']
ITER_POLICIES = [None, 'lifo', 'fifo', 'random']
ALL_OPS = '~&|^nw+-*<>=xcsrm@'


# ---------------------------------------------------------------------------------------
# generation
# ---------------------------------------------------------------------------------------

def gen_program(rng):
    prog = []
    nid = [0]
    vals = []          # ids of wire-valued statements
    srcs = []          # ids of in/const/reg statements
    regs = []
    mems = []          # (id, sync)
    args_of = {}

    def add(st):
        st['id'] = nid[0]
        nid[0] += 1
        prog.append(st)
        return st['id']

    def width():
        return rng.choice([1, 1, 1, 2, 2, 3, 4, 4, 5, 7, 8, 8, 12, 16])

    for _ in range(rng.choice([1, 2, 2, 3])):
        i = add({'k': 'in', 'w': width()})
        vals.append(i)
        srcs.append(i)
    if rng.random() < 0.5:
        w = width()
        i = add({'k': 'const', 'w': w, 'v': rng.getrandbits(w)})
        vals.append(i)
        srcs.append(i)
    for _ in range(rng.choice([0, 0, 1, 1, 2])):
        i = add({'k': 'reg', 'w': width()})
        vals.append(i)
        srcs.append(i)
        regs.append(i)
    for _ in range(rng.choice([0, 0, 0, 1, 1, 2])):
        i = add({'k': 'mem', 'bw': rng.choice([1, 2, 4, 8]), 'aw': rng.choice([1, 2, 3, 5]),
                 'async': rng.random() < 0.75})
        if mems and rng.random() < 0.3:
            prog[i]['name_of'] = mems[0]        # a second memory bearing the first one's name
        mems.append(i)
    sync = {m for m in mems if not prog[m]['async']}

    def pick():
        # recent values are preferred so that chains (long paths) form
        if rng.random() < 0.55:
            return vals[-1 - min(rng.randrange(3), len(vals) - 1)]
        return rng.choice(vals)

    nops = rng.randint(3, 15)
    for _ in range(nops):
        r = rng.random()
        if mems and r < 0.22:
            m = rng.choice(mems)
            if rng.random() < 0.5:
                a = rng.choice(srcs) if m in sync else pick()
                i = add({'k': 'read', 'm': m, 'a': a})
                args_of[i] = [a]
                vals.append(i)
            else:
                add({'k': 'write', 'm': m, 'a': pick(), 'd': pick(),
                     'e': pick() if rng.random() < 0.4 else None,
                     # the user first tries to write an Output wire into the memory (refused)
                     'refused_first': rng.random() < 0.3})
            continue
        if r < 0.30:
            a = pick()
            i = add({'k': 'op', 'op': '~', 'a': [a]})
            args_of[i] = [a]
        elif r < 0.38:
            a = pick()
            i = add({'k': 'slice', 'a': a, 'lo': rng.randrange(4), 'span': rng.randrange(6)})
            args_of[i] = [a]
        elif r < 0.46:
            n = rng.choice([2, 2, 3])
            aa = [pick() for _ in range(n)]
            if rng.random() < 0.3:
                aa[-1] = aa[0]
            i = add({'k': 'concat', 'a': aa})
            args_of[i] = aa
        elif r < 0.54:
            aa = [pick(), pick(), pick()]
            if rng.random() < 0.4 and args_of.get(aa[1]):
                aa[2] = rng.choice(args_of[aa[1]])     # reconverge inside the mux
            i = add({'k': 'sel', 'a': aa})
            args_of[i] = aa
        elif r < 0.60:
            a = pick()
            i = add({'k': 'wire', 'a': a})
            args_of[i] = [a]
        else:
            a = pick()
            q = rng.random()
            if q < 0.35 and args_of.get(a):
                b = rng.choice(args_of[a])              # y = (a & b) | a
            elif q < 0.47:
                b = a                                   # a + a
            else:
                b = pick()
            if rng.random() < 0.5:
                a, b = b, a
            i = add({'k': 'op', 'op': rng.choice(BIN_OPS), 'a': [a, b]})
            args_of[i] = [a, b]
        vals.append(i)
    for rg in regs:
        add({'k': 'next', 'r': rg, 'a': pick() if rng.random() < 0.85 else rg})
    for _ in range(rng.choice([1, 1, 2])):
        add({'k': 'out', 'a': pick()})
    return prog


END_DELAYS = [-1, -1, -2, -0.5, -100]


def gen_custom_table(rng):
    t = {}
    for op in ALL_OPS:
        if op in 'r@':
            continue
        t[op] = [rng.choice([0, 0, 1, 1, 1, 2, 3]), rng.choice([0, 0, 0, 1])]
    t['end'] = rng.choice(END_DELAYS)
    return t


def gen_scheds(streams, k):
    s = streams['sched']
    pols = list(ITER_POLICIES)
    s.shuffle(pols)
    out = []
    for j in range(k):
        out.append({'hash_seed': streams.subseed('hash'),
                    'iter_policy': pols[j % len(pols)],
                    'iter_seed': streams.subseed('iter')})
    return out


def gen_case(streams, tier):
    g = streams['gen']
    prog = gen_program(g)
    k = 3 if tier == 'quick' else g.choice([3, 4])
    fp = [[130, None]]
    for _ in range(2):
        fp.append([g.choice([22, 45, 65, 90, 130, 180, 250, 32.5]),
                   g.choice([None, 100, 383, 250.5, 1, 0, 0.0])])
    return {'prop': ID, 'program': prog,
            'custom': gen_custom_table(g),
            'tables': ['default', 'custom'],
            'freq': fp,
            'pairs': {'mode': g.choice(['all', 'all', 'named'])},
            'call': g.choice(['single', 'bulk', 'bulk_dstnets', 'bulk_iterators']),
            'scheds': gen_scheds(streams, k),
            'rewrite': g.choice([None, 'optimize', 'optimize', 'one_bit_selects', 'two_way_concat',
                                 'add_read_port']),
            # a first TimingAnalysis whose user-supplied delay function raises on its k-th call
            'abort_at': g.randrange(1, 12) if g.random() < 0.3 else None,
            'sched': world.gen_sched(streams, with_iter=False, noise=False)}


# ---------------------------------------------------------------------------------------
# elaboration with the real construction API
# ---------------------------------------------------------------------------------------

class Built(object):
    def __init__(self):
        self.block = None
        self.env = {}
        self.mems = {}


def build(prog, implicit=False):
    """implicit: build into whatever the working block is, without naming it (what a user's
    script does), instead of into a Block of our own."""
    import contextlib
    import pyrtl
    b = Built()
    b.block = pyrtl.working_block() if implicit else pyrtl.Block()
    named = set()
    nexted = set()

    def fit(w, n):
        if len(w) > n:
            return w[:n]
        if len(w) < n:
            return w.zero_extended(n)
        return w

    def cap(w):
        return w[:MAXW] if len(w) > MAXW else w

    def give(st, w, prefix='v'):
        name = '%s%d' % (prefix, st['id'])
        if id(w) in named or not w.name.startswith('tmp'):
            nw = pyrtl.WireVector(len(w), name)
            nw <<= w
            w = nw
        else:
            w.name = name
        named.add(id(w))
        b.env[st['id']] = w
        return w

    def val(i):
        try:
            return b.env[i]
        except KeyError:
            raise HarnessError('program refers to a non-value statement %r' % (i,))

    with (contextlib.nullcontext() if implicit
          else pyrtl.set_working_block(b.block, no_sanity_check=True)):
        for st in prog:
            k = st['k']
            if k == 'in':
                w = pyrtl.Input(st['w'], 'i%d' % st['id'])
                named.add(id(w))
                b.env[st['id']] = w
            elif k == 'const':
                w = pyrtl.Const(st['v'] & ((1 << st['w']) - 1), bitwidth=st['w'],
                                name='k%d' % st['id'])
                named.add(id(w))
                b.env[st['id']] = w
            elif k == 'reg':
                w = pyrtl.Register(st['w'], 'r%d' % st['id'])
                named.add(id(w))
                b.env[st['id']] = w
            elif k == 'mem':
                b.mems[st['id']] = pyrtl.MemBlock(st['bw'], st['aw'], name='m%d' % st.get('name_of', st['id']),
                                                  max_read_ports=None, max_write_ports=None,
                                                  asynchronous=bool(st['async']))
            elif k == 'op':
                op = st['op']
                a = val(st['a'][0])
                if op == '~':
                    r = ~a
                else:
                    c = val(st['a'][1])
                    if op == '&':
                        r = a & c
                    elif op == '|':
                        r = a | c
                    elif op == '^':
                        r = a ^ c
                    elif op == 'nand':
                        r = a.nand(c)
                    elif op == '+':
                        r = a + c
                    elif op == '-':
                        r = a - c
                    elif op == '*':
                        r = a * c
                    elif op == '<':
                        r = a < c
                    elif op == '>':
                        r = a > c
                    elif op == '==':
                        r = a == c
                    else:
                        raise HarnessError('bad op %r' % op)
                give(st, cap(r))
            elif k == 'sel':
                s = val(st['a'][0])
                if len(s) != 1:
                    s = s[0]
                give(st, pyrtl.select(s, val(st['a'][1]), val(st['a'][2])))
            elif k == 'slice':
                a = val(st['a'])
                n = len(a)
                lo = st['lo'] % n
                hi = lo + 1 + st['span'] % (n - lo)
                give(st, a[lo:hi])
            elif k == 'concat':
                give(st, cap(pyrtl.concat(*[val(x) for x in st['a']])))
            elif k == 'wire':
                a = val(st['a'])
                w = pyrtl.WireVector(len(a), 'v%d' % st['id'])
                w <<= a
                named.add(id(w))
                b.env[st['id']] = w
            elif k == 'read':
                m = b.mems[st['m']]
                give(st, pyrtl.as_wires(m[fit(val(st['a']), m.addrwidth)]))
            elif k == 'write':
                m = b.mems[st['m']]
                addr = fit(val(st['a']), m.addrwidth)
                data = fit(val(st['d']), m.bitwidth)
                if st.get('refused_first'):
                    zo = pyrtl.Output(m.bitwidth, 'zo%d' % st['id'])
                    zo <<= data
                    try:
                        m[addr] <<= zo
                    except (pyrtl.PyrtlError, pyrtl.PyrtlInternalError):
                        b.refused_ports = getattr(b, 'refused_ports', 0) + 1
                    else:
                        raise common.Inconclusive('a memory write of an Output wire was accepted')
                if st.get('e') is None:
                    m[addr] <<= data
                else:
                    m[addr] <<= pyrtl.MemBlock.EnabledWrite(data, fit(val(st['e']), 1))
            elif k == 'next':
                if st['r'] not in nexted:
                    nexted.add(st['r'])
                    b.env[st['r']].next <<= val(st['a'])
            elif k == 'out':
                a = val(st['a'])
                o = pyrtl.Output(len(a), 'o%d' % st['id'])
                o <<= a
            else:
                raise HarnessError('bad statement kind %r' % k)
        for st in prog:
            if st['k'] == 'reg' and st['id'] not in nexted:
                b.env[st['id']].next <<= b.env[st['id']]
    return b


# ---------------------------------------------------------------------------------------
# the name graph (what the oracles work on) -- read from block.logic / wirevector_set only
# ---------------------------------------------------------------------------------------

class NetInfo(object):
    __slots__ = ('key', 'op', 'args', 'dest', 'w0', 'mem', 'mem_bw', 'mem_aw')


def netkey(net):
    op = net.op
    if op == 's':
        p = ','.join(str(x) for x in net.op_param)
    elif op in 'm@':
        p = net.op_param[1].name
    else:
        p = ''
    return (op, p, tuple(a.name for a in net.args), tuple(d.name for d in net.dests))


class Graph(object):
    def __init__(self, block):
        from pyrtl import Input, Output, Const, Register
        self.kind = {}
        self.width = {}
        for w in block.wirevector_set:
            if isinstance(w, Input):
                kd = 'I'
            elif isinstance(w, Const):
                kd = 'C'
            elif isinstance(w, Register):
                kd = 'R'
            elif isinstance(w, Output):
                kd = 'O'
            else:
                kd = 'W'
            if w.name in self.kind:
                raise HarnessError('duplicate wire name ' + w.name)
            self.kind[w.name] = kd
            self.width[w.name] = len(w)
        nets = []
        for net in block.logic:
            ni = NetInfo()
            ni.key = netkey(net)
            ni.op = net.op
            ni.args = ni.key[2]
            ni.dest = ni.key[3][0] if ni.key[3] else None
            ni.w0 = len(net.args[0])
            if net.op in 'm@':
                m = net.op_param[1]
                # (two memories of a design may bear one name: the object is what counts)
                ni.mem, ni.mem_bw, ni.mem_aw = '%s#%d' % (m.name, m.id), m.bitwidth, m.addrwidth
            else:
                ni.mem = None
            nets.append(ni)
        nets.sort(key=lambda n: n.key)
        self.nets = nets
        self.bykey = {n.key: n for n in nets}
        if len(self.bykey) != len(nets):
            raise HarnessError('net keys are not unique')
        self.driver = {}
        self.readers = {}
        self.reads_of_mem = {}
        self.writes_of_mem = {}
        for n in nets:
            if n.dest is not None:
                if n.dest in self.driver:
                    raise HarnessError('two drivers for ' + n.dest)
                self.driver[n.dest] = n
            seen = set()
            for a in n.args:
                if a not in seen:
                    seen.add(a)
                    self.readers.setdefault(a, []).append(n)
            if n.op == 'm':
                self.reads_of_mem.setdefault(n.mem, []).append(n)
            if n.op == '@':
                self.writes_of_mem.setdefault(n.mem, []).append(n)
        self.names = sorted(self.kind)

    def signature(self):
        return [list(map(str, n.key)) for n in self.nets] + \
               [[n, self.kind[n], self.width[n]] for n in self.names]


# ---- delay functions ------------------------------------------------------------------

def _log2(x):
    return math.log(float(x), 2)


def default_delay(g, n):
    """Independently written copy of the documented default table (130nm stdcell fit)."""
    op, w = n.op, n.w0
    if op in 'r@':
        return -1
    if op in 'wcs':
        return 0
    if op == '~':
        return 48.5
    if op == '&':
        return 98.5
    if op == '|':
        return 105.3
    if op == '^':
        return 135.07
    if op == 'n':
        return 66.0
    if op == 'x':
        return 138.0
    if op in '+-':
        return 184.0 * _log2(w) + 18.9
    if op in '<>':
        return 101.9 * _log2(w) + 105.4
    if op == '=':
        return 60.1 * _log2(w) + 147
    if op == '*':
        if w == 1:
            return 98.57
        if w == 2:
            return 200.17
        return 549.1 * _log2(w) - 391.7
    if op == 'm':
        bits = (2 ** n.mem_aw) * n.mem_bw
        ports = max(len(g.reads_of_mem.get(n.mem, [])), len(g.writes_of_mem.get(n.mem, [])))
        return 270 * 0.130 ** 1.38 * bits ** 0.25 * ports ** 1.30 + 1.05
    raise HarnessError('no delay for op %r' % op)


def custom_delay_of(table):
    def f(g, n):
        if n.op in 'r@':
            return -1
        base, per = table[n.op]
        if n.op == 'm':
            return base + per * n.mem_bw
        return base + per * n.w0
    return f


def custom_funcs(table):
    """The gate_delay_funcs dict handed to TimingAnalysis for the custom table."""
    d = {}
    for op in ALL_OPS:
        if op in 'r@':
            # "a negative delay ends the path": -1 is only the value the docstring happens to use
            d[op] = (lambda v: (lambda width: v))(table.get('end', -1))
        elif op == 'm':
            d[op] = (lambda bp: (lambda mem: bp[0] + bp[1] * mem.bitwidth))(table[op])
        else:
            d[op] = (lambda bp: (lambda width: bp[0] + bp[1] * width))(table[op])
    return d


# ---- oracles --------------------------------------------------------------------------

def longest_paths(g, delay):
    t = {}

    def T(w):
        if w in t:
            return t[w]
        if g.kind[w] in 'ICR':
            t[w] = 0
            return 0
        n = g.driver.get(w)
        if n is None:
            raise HarnessError('wire %s has no driver' % w)
        d = delay(g, n)
        if d < 0:
            raise HarnessError('non-source wire %s driven by an end-of-path net' % w)
        t[w] = None      # combinational loop guard
        best = None
        for a in n.args:
            ta = T(a)
            if ta is None:
                raise HarnessError('combinational loop at ' + w)
            if best is None or ta > best:
                best = ta
        t[w] = best + d
        return t[w]
    for w in g.names:
        T(w)
    return t


def all_critical_paths(g, delay, t, cap=CP_LIMIT):
    """Integer tables only: every (source, nets) path ending at a wire of maximal time whose
    summed delay is that time."""
    mx = max(t.values())
    out = set()

    def back(w, tail):
        if len(out) > cap:
            return
        if g.kind[w] in 'ICR':
            out.add((w, tuple(tail)))
            return
        n = g.driver[w]
        d = delay(g, n)
        for a in set(n.args):
            if t[a] + d == t[w]:
                back(a, [n.key] + tail)
    for w in g.names:
        if t[w] == mx:
            back(w, [])
    return out


def walk_cost(g, src, cap):
    """Size of the tree of net-simple walks from src (what the code's DFS explores, whatever
    dst is).  Only used to decide whether a src is affordable."""
    cnt = [0]

    def rec(w, used):
        for n in g.readers.get(w, []):
            if cnt[0] > cap:
                return
            if n.key in used:
                continue
            if n.op == '@':
                for m in g.reads_of_mem.get(n.mem, []):
                    cnt[0] += 1
                    rec(m.dest, used | {n.key, m.key})
            else:
                cnt[0] += 1
                rec(n.dest, used | {n.key})
    rec(src, frozenset())
    return cnt[0]


def simple_paths(g, src, dst, cap=PATH_CAP):
    """Set of tuples of net keys; None when more than cap."""
    out = set()
    over = [False]

    def step(nw, path, used):
        if nw == dst:
            out.add(tuple(path))
            if len(out) > cap:
                over[0] = True
            return
        if nw == src:
            return
        rec(nw, path, used)

    def rec(w, path, used):
        for n in g.readers.get(w, []):
            if over[0]:
                return
            if n.key in used:
                continue
            if n.op == '@':
                for m in g.reads_of_mem.get(n.mem, []):
                    if m.key in used:
                        continue
                    step(m.dest, path + [n.key, m.key], used | {n.key, m.key})
            else:
                step(n.dest, path + [n.key], used | {n.key})
    rec(src, [], frozenset())
    return None if over[0] else out


def close(a, b, exact):
    if exact:
        return a == b
    return a == b or math.isclose(a, b, rel_tol=1e-9, abs_tol=1e-9)


def pstr(path):
    return [' '.join([k[0] + ('(' + k[1] + ')' if k[1] else ''), ','.join(k[2]), '->',
                      ','.join(k[3])]) for k in path]


# ---------------------------------------------------------------------------------------
# judging one build
# ---------------------------------------------------------------------------------------

class _UserAbort(Exception):
    """Raised by a user-supplied gate delay function (fault 'analysis_aborted')."""


class _Crash(Exception):
    def __init__(self, violation):
        Exception.__init__(self)
        self.violation = violation


def call(what, tags, fn, *a, **k):
    """Call into the code under test.  The designs are valid, so a refusal is the generator's
    fault (HarnessError); any other exception is the analysis crashing."""
    import pyrtl
    try:
        return fn(*a, **k)
    except (HarnessError, common.RunTimeout):
        raise
    except pyrtl.PyrtlError as e:
        # the designs come out of the construction API, so they are valid: a refusal is the
        # analysis (or state an earlier, aborted call left behind) failing a legal call
        raise _Crash(Violation('refusal', 'valid_design_refused_by_analysis',
                               {'in': what, 'exc': repr(e)[:300]}, list(tags) + ['in:' + what]))
    except Exception as e:
        raise _Crash(Violation('crash', 'unexpected_exception',
                               {'in': what, 'exc': repr(e)[:300]}, list(tags) + ['in:' + what]))


def check_timing(case, b, g, res, label):
    """Returns (Violation | None, report dict for cross-schedule comparison)."""
    import pyrtl
    from pyrtl import Input, Const, Register
    report = {}
    for table in case['tables']:
        exact = table == 'custom'
        if table == 'default':
            delay = default_delay
            funcs = None
        else:
            delay = custom_delay_of(case['custom'])
            funcs = custom_funcs(case['custom'])
        res.probes.hit('table:' + table)
        tags = ['table:' + table]
        ta = call('TimingAnalysis', tags, pyrtl.TimingAnalysis, block=b.block,
                  gate_delay_funcs=funcs)
        exp = longest_paths(g, delay)
        got = {}
        for w, v in ta.timing_map.items():
            if w.name in got:
                return Violation('timing', 'duplicate_wire_in_timing_map', {'wire': w.name}, tags), None
            got[w.name] = v
        if set(got) != set(exp):
            return Violation('timing', 'timing_map_keys',
                             {'build': label, 'missing': sorted(set(exp) - set(got)),
                              'unexpected': sorted(set(got) - set(exp))}, tags), None
        bad = [w for w in g.names if not close(got[w], exp[w], exact)]
        if bad:
            # report the root cause: a wrong wire all of whose driver's arguments are right
            root = [w for w in bad if g.driver.get(w) is None
                    or g.kind[w] in 'ICR' or not any(a in bad for a in g.driver[w].args)]
            for w in (root or bad)[:1]:
                n = g.driver.get(w)
                return Violation('timing', 'timing_map_value',
                                 {'build': label, 'wire': w, 'got': got[w], 'expected': exp[w],
                                  'driver': pstr([n.key])[0] if n else None},
                                 tags + ['op:' + (n.op if n else '-')]), None
        mx = max(exp.values())
        gmx = call('max_length', tags, ta.max_length)
        if not close(gmx, mx, exact):
            return Violation('timing', 'max_length', {'build': label, 'got': gmx, 'expected': mx},
                             tags), None
        # ---- critical paths -----------------------------------------------------------
        buf = io.StringIO()
        with contextlib.redirect_stdout(buf):
            cps = call('critical_path', tags, ta.critical_path, print_cp=False, cp_limit=CP_LIMIT)
        limit_hit = 'limit reached' in buf.getvalue() or len(cps) >= CP_LIMIT
        got_cps = []
        for item in cps:
            if not (isinstance(item, tuple) and len(item) == 2):
                return Violation('critical', 'result_shape', {'item': repr(item)[:200]}, tags), None
            first, path = item
            if not isinstance(first, (Input, Const, Register)):
                return Violation('critical', 'first_wire_not_a_source',
                                 {'build': label, 'first': first.name}, tags), None
            keys = [netkey(n) for n in path]
            cur = first.name
            tot = 0
            for k in keys:
                ni = g.bykey.get(k)
                if ni is None:
                    return Violation('critical', 'net_not_in_block', {'net': pstr([k])}, tags), None
                if cur not in ni.args:
                    return Violation('critical', 'path_not_connected',
                                     {'build': label, 'path': pstr(keys), 'at': pstr([k])[0],
                                      'expected_arg': cur}, tags), None
                d = delay(g, ni)
                if d < 0 or ni.dest is None:
                    return Violation('critical', 'path_crosses_register_or_write',
                                     {'build': label, 'path': pstr(keys)}, tags), None
                tot = tot + d
                cur = ni.dest
            if not close(tot, gmx, exact):
                return Violation('critical', 'path_delay_not_max_length',
                                 {'build': label, 'first': first.name, 'path': pstr(keys),
                                  'sum': tot, 'max_length': gmx}, tags), None
            got_cps.append((first.name, tuple(keys)))
        if len(set(got_cps)) > 1:
            res.probes.hit('equal_delay_tie')
        if limit_hit:
            res.probes.hit('cp_limit_hit')
        elif exact:
            allcp = all_critical_paths(g, delay, exp)
            if len(allcp) <= CP_LIMIT:
                miss = allcp - set(got_cps)
                if miss:
                    m = sorted(miss)[0]
                    return Violation('critical', 'critical_path_missing',
                                     {'build': label, 'first': m[0], 'path': pstr(m[1]),
                                      'returned': len(got_cps), 'expected': len(allcp)}, tags), None
        if not limit_hit:
            report['cp:' + table] = jdigest(sorted([f, pstr(p)] for f, p in set(got_cps)))
        # ---- max_freq -----------------------------------------------------------------
        f130 = None
        for tech, ff in case['freq']:
            # Dennard scaling (the docstring's stated assumption): delays calibrated at 130nm
            # scale linearly with the feature size
            s = tech / 130.0
            if ff is None:
                period = s * (mx + 189 + 194)
                gf = call('max_freq', tags, ta.max_freq, tech_in_nm=tech)
            else:
                period = s * mx + ff
                if period <= 0:
                    continue        # a design without logic and no overhead: 1/0 either way
                gf = call('max_freq', tags, ta.max_freq, tech_in_nm=tech, ffoverhead=ff)
            ef = 1e6 / period
            if not math.isclose(gf, ef, rel_tol=1e-9):
                return Violation('max_freq', 'formula',
                                 {'build': label, 'tech_in_nm': tech, 'ffoverhead': ff, 'got': gf,
                                  'expected': ef, 'max_length': mx}, tags), None
            if ff is None and tech == 130:
                f130 = gf
            if ff is None and tech < 130 and f130 is not None and gf < f130:
                return Violation('max_freq', 'smaller_technology_estimated_slower',
                                 {'build': label, 'tech_in_nm': tech, 'got': gf, 'at_130nm': f130},
                                 tags), None
        gd = call('max_freq', tags, ta.max_freq)
        if not math.isclose(gd, 1e6 / (mx + 189 + 194), rel_tol=1e-9):
            return Violation('max_freq', 'default_formula', {'got': gd, 'max_length': mx}, tags), None
        res.log.log('timing', table, label, jdigest([sorted(got.items()), gmx, len(got_cps)]))
    return None, report


def check_fanout(b, g, res, label):
    import pyrtl
    exp = {n: 0 for n in g.names}
    for n in g.nets:
        for a in n.args:
            exp[a] += 1
        if len(set(n.args)) < len(n.args):
            res.probes.hit('dup_arg_net')
    byname = {w.name: w for w in b.block.wirevector_set}
    for name in g.names:
        got = call('fanout', [], pyrtl.fanout, byname[name])
        if got != exp[name]:
            return Violation('fanout', 'count_mismatch',
                             {'build': label, 'wire': name, 'got': got, 'expected': exp[name],
                              'readers': [pstr([n.key])[0] for n in g.readers.get(name, [])]},
                             ['dup_arg'] if any(n.args.count(name) > 1
                                                for n in g.readers.get(name, [])) else [])
    res.log.log('fanout', 'all', label, jdigest(sorted(exp.items())))
    return None


def select_pairs(case, g):
    mode = case['pairs']['mode']
    if mode == 'list':
        return [(s, d) for s, d in case['pairs']['list'] if s in g.kind and d in g.kind]
    names = g.names
    if mode == 'named' or len(names) > 26:
        names = [n for n in names if not n.startswith('tmp') and not n.startswith('const_')]
    return [(s, d) for s in names for d in names]


def check_paths(case, b, g, res, label):
    """Returns the list of findings [(priority, Violation)] of this build."""
    import pyrtl
    byname = {w.name: w for w in b.block.wirevector_set}
    blk = b.block
    pairs = select_pairs(case, g)
    afford = {}
    expected = {}
    for s, d in pairs:
        if s not in afford:
            afford[s] = walk_cost(g, s, WALK_CAP) <= WALK_CAP
            if not afford[s]:
                res.probes.hit('src_skipped_walk_cap')
        if not afford[s]:
            continue
        e = simple_paths(g, s, d)
        if e is None:
            res.probes.hit('pair_skipped_path_cap')
            continue
        expected[(s, d)] = e
    if not expected:
        return []
    mode = case.get('call', 'single')
    srcs = sorted({s for s, _d in expected})
    dsts = sorted({d for _s, d in expected})
    full = len(expected) == len(srcs) * len(dsts)
    results = {}
    try:
        if mode != 'single' and full:
            if mode == 'bulk_dstnets':
                _x, dn = blk.net_connections()
                pr = call('paths', [mode], pyrtl.paths, [byname[s] for s in srcs],
                          {byname[d] for d in dsts}, dst_nets=dn, block=blk)
            elif mode == 'bulk_iterators':
                # any iterable of wires will do for src and dst: a tuple here, a generator there
                pr = call('paths', [mode], pyrtl.paths, tuple(byname[s] for s in srcs),
                          (byname[d] for d in dsts), block=blk)
            else:
                pr = call('paths', [mode], pyrtl.paths, [byname[s] for s in srcs],
                          [byname[d] for d in dsts], block=blk)
            if not isinstance(pr, pyrtl.analysis.PathsResult):
                return [(0, Violation('paths', 'result_type', {'type': type(pr).__name__}, []))]
            if len(pr) != len(srcs):
                return [(0, Violation('paths', 'result_keys',
                                      {'sources': len(pr), 'asked': len(srcs)}, [mode]))]
            for s in srcs:
                row = pr[byname[s]]
                if len(row) != len(dsts):
                    return [(0, Violation('paths', 'result_keys',
                                          {'src': s, 'dsts': len(row), 'asked': len(dsts)}, [mode]))]
                for d in dsts:
                    results[(s, d)] = row[byname[d]]
            res.probes.hit('bulk_call')
        else:
            for (s, d) in sorted(expected):
                pr = call('paths', ['single'], pyrtl.paths, byname[s], byname[d], block=blk)
                results[(s, d)] = pr[byname[s]][byname[d]]
    except KeyError as e:
        return [(0, Violation('paths', 'result_keys', {'exc': repr(e)[:200]}, [mode]))]
    finds = []
    digest = []
    for (s, d) in sorted(expected):
        exp = expected[(s, d)]
        got_list = [tuple(netkey(n) for n in p) for p in results[(s, d)]]
        got = set(got_list)
        res.probes.hit('pairs_judged')
        res.probes.hit('paths_total', len(exp))
        digest.append([s, d, len(got_list)])
        if exp:
            if len(exp) > 1 and s != d:
                res.probes.hit('multi_path_pair')
                # reconvergent fan-out: a wire on one path is also reached from src another
                # way, i.e. one expected path is a proper suffix of another
                if any(len(q) < len(p) and p[-len(q):] == q for p in exp for q in exp):
                    res.probes.hit('reconvergent_pair')
            if s == d:
                res.probes.hit('register_loop_path' if any(k[0] == 'r' for p in exp for k in p)
                               else 'memory_loop_path')
            if any(k[0] == '@' for p in exp for k in p):
                res.probes.hit('mem_write_read_path')
        tags0 = ['src_is_dst'] if s == d else []
        if len(got_list) != len(got):
            finds.append((0, Violation('paths', 'duplicate_path',
                                       {'build': label, 'src': s, 'dst': d,
                                        'returned': len(got_list), 'distinct': len(got)}, tags0)))
            continue
        if got == exp:
            continue
        extra = sorted(got - exp)
        missing = sorted(exp - got)
        detail = {'build': label, 'src': s, 'dst': d, 'returned': len(got), 'expected': len(exp),
                  'missing': [pstr(p) for p in missing[:3]], 'extra': [pstr(p) for p in extra[:3]]}
        nonsimple = [p for p in extra if len(set(p)) < len(p)]
        if nonsimple:
            p = nonsimple[0]
            rep = sorted({k for k in p if p.count(k) > 1})
            t = list(tags0) + ['repeated_net']
            if any(k[0] == 'm' for k in rep):
                t.append('memory_write_read_loop')
            detail['path'] = pstr(p)
            finds.append((0, Violation('paths', 'non_simple_path', detail, t)))
            continue
        if extra:
            t = list(tags0) + ['extra_path']
            sd = g.driver.get(s)
            if sd is not None and any(sd.key in p[:-1] for p in extra):
                t.append('loop_through_src')
            if any(any(g.bykey[k].dest == d for k in p[:-1]) for p in extra):
                t.append('passes_through_dst')
            finds.append((1, Violation('paths', 'unexpected_path', detail, t)))
            continue

        def explained(p):
            return any(len(q) < len(p) and p[-len(q):] == q for q in got)
        if all(explained(p) for p in missing):
            finds.append((3, Violation('paths', 'path_set_mismatch', detail,
                                       tags0 + ['missing_path', 'reconvergent_fanout'])))
        else:
            detail['missing'] = [pstr(p) for p in missing if not explained(p)][:3]
            finds.append((2, Violation('paths', 'missing_path', detail, tags0 + ['missing_path'])))
    res.log.log('paths', mode, label, jdigest(digest))
    # ---- defaults: paths() == Inputs x Outputs -------------------------------------------
    ins = [n for n in g.names if g.kind[n] == 'I']
    outs = [n for n in g.names if g.kind[n] == 'O']
    if all(afford.get(s, walk_cost(g, s, WALK_CAP) <= WALK_CAP) for s in ins):
        pr = call('paths', ['defaults'], pyrtl.paths, block=blk)
        keys = sorted(w.name for w in pr)
        if keys != ins:
            finds.append((0, Violation('paths', 'default_sources', {'got': keys, 'inputs': ins}, [])))
        else:
            for w in pr:
                dk = sorted(x.name for x in pr[w])
                if dk != outs:
                    finds.append((0, Violation('paths', 'default_destinations',
                                               {'src': w.name, 'got': dk, 'outputs': outs}, [])))
                    break
        res.probes.hit('default_call')
    # ---- distance: the same paths, mapped to the sum of f ---------------------------------
    dl = custom_delay_of(case['custom'])
    cands = [(s, d) for (s, d) in sorted(expected) if expected[(s, d)]]
    for (s, d) in cands[:3]:
        def f(net):
            return dl(g, g.bykey[netkey(net)]) + 2
        dm = call('distance', [], pyrtl.distance, byname[s], byname[d], f, block=blk)
        gotd = {}
        for p, v in dm.items():
            gotd[tuple(netkey(n) for n in p)] = v
        ret = set(tuple(netkey(n) for n in p) for p in results[(s, d)])
        if set(gotd) != ret:
            finds.append((0, Violation('distance', 'keys_differ_from_paths',
                                       {'src': s, 'dst': d, 'distance_keys': len(gotd),
                                        'paths': len(ret)}, [])))
            break
        for p, v in gotd.items():
            ev = sum(dl(g, g.bykey[k]) + 2 for k in p)
            if v != ev:
                finds.append((0, Violation('distance', 'sum_mismatch',
                                           {'src': s, 'dst': d, 'path': pstr(p), 'got': v,
                                            'expected': ev}, [])))
                break
        res.probes.hit('distance_judged')
    return finds


# ---------------------------------------------------------------------------------------

def run(case, res):
    world.setup_world(case['sched'])
    prog = case['program']
    sig0 = None
    reports = []
    path_finds = []
    for bi, sc in enumerate(case['scheds']):
        common.iter_seam.uninstall()
        common.install_hash_seam(sc['hash_seed'])
        common.reset_world()
        b = build(prog)
        if getattr(b, 'refused_ports', 0):
            res.faults.hit('memory_port_refused_then_built', b.refused_ports)
        g = Graph(b.block)
        sig = jdigest(g.signature())
        if sig0 is None:
            sig0 = sig
            res.shape = sig
        elif sig != sig0:
            raise HarnessError('the same program elaborated to a different netlist under '
                               'another hash seed (build %d)' % bi)
        res.probes.hit('builds')
        res.probes.hit('iter_policy:%s' % sc.get('iter_policy'))
        res.log.log('builder', 'build', bi, sig)
        common.iter_seam.install(sc.get('iter_policy'), sc.get('iter_seed', 0))
        if case.get('abort_at') is not None:
            import pyrtl
            left = [case['abort_at']]

            def _wrap(fn):
                def f(x):
                    left[0] -= 1
                    if left[0] == 0:
                        raise _UserAbort()
                    return fn(x)
                return f
            funcs = {op: _wrap(fn) for op, fn in custom_funcs(case['custom']).items()}
            try:
                pyrtl.TimingAnalysis(block=b.block, gate_delay_funcs=funcs)
            except _UserAbort:
                res.faults.hit('analysis_aborted_by_user_function')
            except pyrtl.PyrtlError:
                pass
        try:
            v, rep = check_timing(case, b, g, res, bi)
            if v is not None:
                return v
            reports.append(rep)
            v = check_fanout(b, g, res, bi)
            if v is not None:
                return v
            path_finds.extend(check_paths(case, b, g, res, bi))
        except _Crash as c:
            return c.violation
        finally:
            common.iter_seam.uninstall()
    # ---- query, rewrite the block in place, query again: an analysis of a block describes the
    # block as it is now, not as it was when somebody first asked
    if case.get('rewrite'):
        import pyrtl
        blk = b.block
        try:
            with contextlib.redirect_stdout(io.StringIO()):
                with pyrtl.set_working_block(blk, no_sanity_check=True):
                    if case['rewrite'] == 'optimize':
                        pyrtl.optimize(block=blk)
                    elif case['rewrite'] == 'one_bit_selects':
                        pyrtl.one_bit_selects(block=blk)
                    elif case['rewrite'] == 'add_read_port':
                        # the user goes on building after a first look at the timing: one more
                        # read port (through the API, which keeps the memory's own port lists)
                        for mid in sorted(b.mems):
                            mm = b.mems[mid]
                            late = pyrtl.Output(mm.bitwidth, 'late_rd%d' % mid)
                            late <<= mm[pyrtl.Const(0, bitwidth=mm.addrwidth)]
                        if not b.mems:
                            raise pyrtl.PyrtlError('no memory to extend')
                    else:
                        pyrtl.two_way_concat(block=blk)
        except (pyrtl.PyrtlError, pyrtl.PyrtlInternalError):
            res.probes.hit('rewrite_refused')
        else:
            if blk is b.block:
                res.faults.hit('rewritten_in_place:' + case['rewrite'])
                g2 = Graph(blk)
                try:
                    v = check_fanout(b, g2, res, 'after_' + case['rewrite'])
                    if v is not None:
                        v.tags = list(v.tags) + ['history:query_rewrite_query']
                        return v
                    # (not with memories: the read-delay estimate counts MemBlock.readport_nets,
                    # a list the passes do not maintain; what it should be after a rewrite is
                    # not something the property defines)
                    tv = None
                    if case['rewrite'] == 'add_read_port' or not any(n.op == 'm' for n in g2.nets):
                        tv, _rep = check_timing(dict(case, tables=['default']), b, g2, res,
                                                'after_' + case['rewrite'])
                    if tv is not None:
                        tv.tags = list(tv.tags) + ['history:query_rewrite_query']
                        return tv
                except _Crash as c:
                    return c.violation
            else:
                res.probes.hit('rewrite_made_a_new_block')
    res.sched = hashlib.sha1(repr([(s['hash_seed'], s.get('iter_policy'), s.get('iter_seed'))
                                   for s in case['scheds']]).encode()).hexdigest()[:12]
    res.nontrivial = True
    for rep in reports[1:]:
        for k in sorted(set(rep) & set(reports[0])):
            if rep[k] != reports[0][k]:
                return Violation('schedule', 'critical_paths_differ_across_schedules',
                                 {'what': k}, ['table:' + k.split(':')[1]])
    if path_finds:
        path_finds.sort(key=lambda pv: pv[0])
        return path_finds[0][1]
    return None


# ---------------------------------------------------------------------------------------
# shrinking
# ---------------------------------------------------------------------------------------

def _refs(st):
    k = st['k']
    if k in ('op', 'sel', 'concat'):
        return list(st['a'])
    if k in ('slice', 'wire', 'read', 'next', 'out'):
        return [st['a']]
    if k == 'write':
        return [st['a'], st['d']] + ([st['e']] if st.get('e') is not None else [])
    return []


def _subst(st, old, new):
    k = st['k']
    if k in ('op', 'sel', 'concat'):
        st['a'] = [new if x == old else x for x in st['a']]
    elif k in ('slice', 'wire', 'read', 'next', 'out'):
        if st['a'] == old:
            st['a'] = new
    elif k == 'write':
        for f in ('a', 'd', 'e'):
            if st.get(f) == old:
                st[f] = new


def drop_statement(prog, sid):
    """Program without statement sid; references are repaired (to the statement's first
    argument, else to the first input).  None if not droppable."""
    first_in = prog[0]['id']
    if sid == first_in:
        return None
    byid = {st['id']: st for st in prog}
    st = byid[sid]
    k = st['k']
    gone = {sid}
    if k == 'mem':
        gone |= {s['id'] for s in prog if s['k'] in ('read', 'write') and s['m'] == sid}
    if k == 'reg':
        gone |= {s['id'] for s in prog if s['k'] == 'next' and s['r'] == sid}
    out = [copy.deepcopy(s) for s in prog if s['id'] not in gone]
    for x in sorted(gone):
        sx = byid[x]
        if sx['k'] in ('write', 'next', 'out', 'mem'):
            continue
        r = _refs(sx)
        new = first_in
        for cand in r:
            if cand not in gone:
                new = cand
                break
        for s in out:
            _subst(s, x, new)
    # a register must not be its own only reader via repair of 'next' to a later value: refs of
    # 'next' may point anywhere earlier in the list, which is still true after dropping
    return out


def candidates(case):
    sch = case['scheds']
    if len(sch) > 1:
        for i in range(len(sch)):
            c = copy.deepcopy(case)
            del c['scheds'][i]
            yield c
    if len(case['tables']) > 1:
        for t in case['tables']:
            c = copy.deepcopy(case)
            c['tables'] = [t]
            yield c
    if len(case['freq']) > 1:
        c = copy.deepcopy(case)
        c['freq'] = case['freq'][:1]
        yield c
    if case.get('call') != 'single':
        c = copy.deepcopy(case)
        c['call'] = 'single'
        yield c
    for key in ('abort_at', 'rewrite'):
        if case.get(key) is not None:
            c = copy.deepcopy(case)
            c[key] = None
            yield c
    if any(st.get('refused_first') for st in case['program']):
        c = copy.deepcopy(case)
        for st in c['program']:
            st.pop('refused_first', None)
        yield c
    prog = case['program']
    # sinks first (outputs, writes, nexts), then from the end
    order = sorted(range(len(prog)),
                   key=lambda i: (0 if prog[i]['k'] in ('out', 'write', 'next') else 1, -i))
    for i in order:
        p = drop_statement(prog, prog[i]['id'])
        if p is not None:
            c = copy.deepcopy(case)
            c['program'] = p
            yield c
    for i, st in enumerate(prog):
        if st['k'] in ('in', 'const', 'reg') and st['w'] > 1:
            c = copy.deepcopy(case)
            c['program'][i]['w'] = 1
            yield c
        if st['k'] == 'mem' and (st['bw'] > 1 or st['aw'] > 1):
            c = copy.deepcopy(case)
            c['program'][i]['bw'] = 1
            c['program'][i]['aw'] = 1
            yield c
        if st['k'] == 'write' and st.get('e') is not None:
            c = copy.deepcopy(case)
            c['program'][i]['e'] = None
            yield c
    pm = case['pairs']
    if pm['mode'] == 'all':
        c = copy.deepcopy(case)
        c['pairs'] = {'mode': 'named'}
        yield c
    elif pm['mode'] == 'named':
        names = []
        for st in prog:
            pre = {'in': 'i', 'const': 'k', 'reg': 'r', 'out': 'o'}.get(st['k'], 'v')
            if st['k'] not in ('mem', 'write', 'next'):
                names.append('%s%d' % (pre, st['id']))
        c = copy.deepcopy(case)
        c['pairs'] = {'mode': 'list', 'list': [[s, d] for s in names for d in names]}
        yield c
    else:
        lst = pm['list']
        n = len(lst)
        if n > 1:
            h = n // 2
            for part in (lst[:h], lst[h:]):
                c = copy.deepcopy(case)
                c['pairs'] = {'mode': 'list', 'list': part}
                yield c
            if n <= 12:
                for i in range(n):
                    c = copy.deepcopy(case)
                    c['pairs'] = {'mode': 'list', 'list': lst[:i] + lst[i + 1:]}
                    yield c


def sample_of(case):
    def show(st):
        k = st['k']
        if k in ('in', 'reg'):
            return '%d:%s/%d' % (st['id'], k, st['w'])
        if k == 'const':
            return '%d:const/%d=%d' % (st['id'], st['w'], st['v'])
        if k == 'mem':
            return '%d:mem %dx2^%d %s' % (st['id'], st['bw'], st['aw'],
                                          'async' if st['async'] else 'sync')
        if k == 'op':
            return '%d:%s%r' % (st['id'], st['op'], st['a'])
        if k == 'next':
            return 'next r%d <- %d' % (st['r'], st['a'])
        if k == 'write':
            return 'write m%d[%d] <- %d en %r' % (st['m'], st['a'], st['d'], st.get('e'))
        if k == 'read':
            return '%d:read m%d[%d]' % (st['id'], st['m'], st['a'])
        return '%d:%s %r' % (st['id'], k, _refs(st))
    return {'program': [show(st) for st in case['program']],
            'scheds': [[s.get('iter_policy'), s['hash_seed'] % 1000] for s in case['scheds']],
            'pairs': case['pairs']['mode'], 'call': case.get('call'), 'freq': case['freq']}
