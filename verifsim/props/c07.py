"""C07 -- conditional_assignment gives each target its unique active branch's value.

World: a session of 1..4 programs elaborated in one process. Each program is a random
condition tree (depth <= 4, several siblings per level, `otherwise` anywhere: first, middle,
repeated), predicates drawn from a shared pool of 1-bit Inputs, targets {WireVector,
Register, MemBlock write} with and without defaults=. Programs alternate between fresh
blocks and the block of an earlier program, between `conditional_assignment` and
`conditional_assignment(defaults=...)`, and reuse a wire that an earlier program only
mentioned in its defaults.
Faults: a non-PyRTL exception thrown by "user code" at a statement boundary inside the tree;
PyRTL-rejected statements (conflicting assignment, multi-bit predicate, nested
conditional_assignment). After any fault: currently_under_condition() is False and the next
program is judged normally; nothing is demanded of the aborted program.
Oracle: a tree interpreter evaluated on the predicate values of every cycle; conflict-free
programs must elaborate, conflicting ones must raise PyrtlError at the offending `|=`
(the literal-set rule is recomputed here); an assignment whose path condition is empty at
every level may be refused with PyrtlError (admissible) or must behave unconditionally.
"""
import copy
import hashlib

from .. import world
from ..common import Violation, HarnessError

ID = 'C07'
LEVEL = 'exploration'
RUN_TIMEOUT_S = 60.0
MIN_BUDGET = 250

TIERS = {
    'quick': {'runs': 100000, 'classes': 8, 'budget_s': 60},
    'thorough': {'runs': 3000000, 'classes': 32, 'budget_s': 1100},
}

NPRED = 4
COMPONENTS = {'real': ['pyrtl.conditional_assignment / otherwise / |= on WireVector, '
                       'Register.next, MemBlock', 'pyrtl.Simulation (to observe the targets)'],
              'stub': ['tree interpreter + literal-set conflict rule (the oracle)']}


class UserCodeError(Exception):
    pass


# ---------------------------------------------------------------------------------------
# generation
# ---------------------------------------------------------------------------------------

def gen_tree(rng, depth, ntargets, counter, maxdepth):
    items = []
    nsib = rng.choice([1, 1, 2, 2, 3, 4])
    for _ in range(nsib):
        r = rng.random()
        pred = 'otherwise' if r < 0.22 else rng.randrange(NPRED)
        body = []
        for _k in range(rng.choice([0, 1, 1, 2])):
            body.append(gen_assign(rng, ntargets, counter))
        if depth < maxdepth and rng.random() < 0.45:
            pos = rng.randint(0, len(body))
            sub = gen_tree(rng, depth + 1, ntargets, counter, maxdepth)
            body[pos:pos] = sub
        if rng.random() < 0.3:
            body.append(gen_assign(rng, ntargets, counter))
        items.append({'pred': pred, 'body': body})
    return items


def gen_assign(rng, ntargets, counter):
    counter[0] += 1
    a = {'assign': rng.randrange(ntargets), 'val': counter[0] % 250 + 1}
    if rng.random() < 0.2:
        a['val'] = 'd%d' % rng.randrange(2)
    a['addr'] = rng.randrange(4)
    if rng.random() < 0.5:
        a['addr'] = 'a%d' % rng.randrange(2)     # an address wire the user holds, used again and again
    a['en'] = rng.choice([None, None, 'e0'])
    return a


def gen_program(rng, tier):
    nt = rng.choice([1, 1, 2, 3])
    targets = [{'kind': rng.choice(['wire', 'wire', 'reg', 'reg', 'mem'])} for _ in range(nt)]
    counter = [rng.randrange(1000)]
    tree = gen_tree(rng, 1, nt, counter, rng.choice([1, 2, 3, 4]))
    if rng.random() < 0.8:
        # most programs are made conflict-free by deleting the offending assignments, so that
        # deep trees reach simulation; the rest keep their conflicts (they must be rejected)
        for _ in range(200):
            rej = first_rejection(tree)
            if rej is None:
                break
            _delete_assignment(tree, rej[0])
    # a register may be told to keep its value explicitly: r.next |= r
    for a, _l in walk_assignments(tree):
        if targets[a['assign']]['kind'] == 'mem' and rng.random() < 0.25:
            # mem[dst] |= mem[src] ^ k: the right-hand side, written inside the same statement,
            # indexes the memory that is being written
            a['val'] = 'm%d' % rng.randrange(4)
        if targets[a['assign']]['kind'] == 'reg' and rng.random() < 0.12:
            a['val'] = 'self'
    prog = {'targets': targets, 'tree': tree, 'block': rng.choice(['fresh', 'fresh', 'same']),
            'defaults': None, 'mention_only': False, 'fault': None}
    if rng.random() < 0.4:
        d = {}
        for ti, t in enumerate(targets):
            if t['kind'] != 'mem' and rng.random() < 0.7:
                d[str(ti)] = rng.choice([200 + rng.randrange(50), 'd1'])
        prog['defaults'] = d
        if rng.random() < 0.5:
            prog['mention_only'] = True     # an extra wire listed in defaults, never assigned here
    # the caller may catch a refusal INSIDE the still open conditional_assignment block and go
    # on with the remaining statements: the refused statement must then count for nothing
    red = reduce_conflicts(tree)
    if red is not None and red[1] and rng.random() < 0.6:
        prog['catch_inside'] = True
    r = rng.random()
    if r < 0.18:
        prog['fault'] = {'kind': 'user_exception', 'at': rng.randrange(1, 12),
                         # the user's try/except sits around the `with <predicate>:` whose body
                         # raised, inside the still open block; the rest of that body is skipped
                         'caught_at_branch': red is not None and not red[1] and rng.random() < 0.5}
    elif r < 0.24:
        prog['fault'] = {'kind': 'wide_predicate', 'at': rng.randrange(1, 8),
                         'caught': rng.random() < 0.5}
    elif r < 0.30:
        prog['fault'] = {'kind': 'nested', 'at': rng.randrange(1, 8),
                         # a nested conditional_assignment(defaults=...) that is refused and caught
                         # inside the open block; its defaults mention a wire a later program uses
                         'caught': rng.random() < 0.5}
    elif r < 0.38 and prog['defaults'] is not None and red is not None and not red[1] \
            and not prog.get('catch_inside'):
        # the block's own finalization is refused on the way out (its last statement asks for a
        # second write port on a one-port memory); everything else it assigned is in force and
        # its defaults are not the next block's
        prog['fault'] = {'kind': 'finalize_refused', 'at': 0}
        prog['mention_only'] = True
    return prog


def _delete_assignment(tree, idx):
    n = [0]

    def rec(items):
        for i, it in enumerate(items):
            if 'assign' in it:
                if n[0] == idx:
                    del items[i]
                    return True
                n[0] += 1
            elif rec(it['body']):
                return True
        return False
    rec(tree)


def gen_case(streams, tier):
    g = streams['gen']
    progs = [gen_program(g, tier) for _ in range(g.choice([1, 2, 2, 3, 4]))]
    for i in range(1, len(progs)):
        if progs[i - 1].get('mention_only') and not progs[i - 1].get('fault') and g.random() < 0.6:
            # follow a defaults-program by a plain one in the same block whose first target
            # is the wire the former only mentioned
            progs[i]['block'] = 'same'
            progs[i]['defaults'] = None
            progs[i]['mention_only'] = False
            progs[i]['targets'][0]['kind'] = 'wire'
    # a defaults-program may be handed the very dict object of the previous defaults-program
    seen_d = False
    for p in progs:
        if p['defaults'] is not None:
            if seen_d and g.random() < 0.6:
                p['shared_defaults'] = True
                p['mention_only'] = False
            seen_d = True
    # a program's memory target may be the memory the previous program of the block wrote
    for i in range(1, len(progs)):
        if any(t['kind'] == 'mem' for t in progs[i]['targets']) and \
                any(t['kind'] == 'mem' for t in progs[i - 1]['targets']) and g.random() < 0.5:
            progs[i]['reuse_mem'] = True
            progs[i]['block'] = 'same'
    # a later plain program may pick up the wire an earlier one only mentioned in defaults
    for i, p in enumerate(progs):
        p['adopt_mentioned'] = g.random() < 0.7
    ncyc = streams['inputs'].randint(2, 8)
    cycles = []
    for _ in range(ncyc):
        cycles.append({'p': [streams['inputs'].randrange(2) for _ in range(NPRED)],
                       'd': [streams['inputs'].randrange(256) for _ in range(2)],
                       'e': streams['inputs'].randrange(2),
                       'a': [streams['inputs'].randrange(4) for _ in range(2)]})
    return {'prop': ID, 'programs': progs, 'cycles': cycles,
            'exhaustive_preds': g.random() < 0.5,
            'sched': world.gen_sched(streams, with_iter=False, noise=False)}


# ---------------------------------------------------------------------------------------
# the oracle: literal sets, conflicts, active assignments
# ---------------------------------------------------------------------------------------

def walk_assignments(tree):
    """Yield (assignment, literal_set) in elaboration order."""
    out = []

    def rec(items, lits):
        last_other = -1
        branches = [it for it in items if 'assign' not in it]
        bi = -1
        for it in items:
            if 'assign' in it:
                out.append((it, frozenset(lits)))
                continue
            bi += 1
            # literals contributed by this level for things inside branch `it`
            lo = -1
            for j in range(bi):
                if branches[j]['pred'] == 'otherwise':
                    lo = j
            mine = set(lits)
            for j in range(lo + 1, bi):
                mine.add((branches[j]['pred'], True))
            if it['pred'] != 'otherwise':
                mine.add((it['pred'], False))
            rec(it['body'], mine)
    rec(tree, set())
    return out


def in_conflict(a, b):
    for (p, neg) in a:
        if (p, not neg) in b:
            return False
    return True


def first_rejection(tree):
    """-> (index of the assignment statement that must be refused, kind) or None.
    kind: 'conflict' (must raise) or 'empty' (admissible refusal)."""
    seen = {}
    for idx, (asg, lits) in enumerate(walk_assignments(tree)):
        if not lits:
            return idx, 'empty'
        for other in seen.get(asg['assign'], []):
            if in_conflict(lits, other):
                return idx, 'conflict'
        seen.setdefault(asg['assign'], []).append(lits)
    return None


def reduce_conflicts(tree):
    """-> (tree without the assignments that must be refused, their indices in the original
    walk order), refusals found one at a time as PyRTL meets them (a refused assignment leaves
    nothing behind for later ones to conflict with); None if an 'empty' refusal (which PyRTL
    may or may not raise) is involved."""
    import copy
    work = copy.deepcopy(tree)
    alive = list(range(sum(1 for _ in walk_assignments(tree))))
    gone = []
    for _ in range(400):
        rej = first_rejection(work)
        if rej is None:
            return work, gone
        if rej[1] != 'conflict':
            return None
        gone.append(alive.pop(rej[0]))
        _delete_assignment(work, rej[0])
    return None


def truncate_at(tree, at):
    """The tree as it is elaborated when the statement with running number `at` (counted as
    elaborate() counts: every item, in order) raises inside a branch body and the exception is
    caught around that branch: the rest of that body is gone. None when the statement is not
    inside any branch (nothing catches it) or is never reached."""
    import copy
    work = copy.deepcopy(tree)
    n = [0]
    found = [None]

    def rec(items, inside):
        for idx, it in enumerate(items):
            n[0] += 1
            if n[0] == at and found[0] is None:
                if not inside:
                    found[0] = 'top'
                    return True
                found[0] = 'cut'
                del items[idx:]
                return True
            if 'assign' not in it:
                if rec(it['body'], True):
                    if found[0] == 'top':
                        return True
                    # caught around this branch: the siblings that follow are elaborated,
                    # and nothing counts towards `at` any more
                    n[0] = -(10 ** 9)
        return False
    rec(work, False)
    return work if found[0] == 'cut' else None


def prefix_at(tree, at):
    """The part of the tree that has been elaborated when statement number `at` raises and
    nothing inside the block catches it: everything before it in program order."""
    import copy
    work = copy.deepcopy(tree)
    n = [0]
    hit = [False]

    def rec(items):
        for idx, it in enumerate(items):
            n[0] += 1
            if n[0] == at:
                del items[idx:]
                hit[0] = True
                return True
            if 'assign' not in it and rec(it['body']):
                del items[idx + 1:]
                return True
        return False
    rec(work)
    return work if hit[0] else None


def active_assignments(tree, pv):
    out = []

    def rec(items, parent_active):
        taken = False
        for it in items:
            if 'assign' in it:
                if parent_active:
                    out.append(it)
                continue
            if it['pred'] == 'otherwise':
                act = parent_active and not taken
                taken = False
            else:
                holds = bool(pv[it['pred']])
                act = parent_active and holds and not taken
                taken = taken or holds
            rec(it['body'], act)
    rec(tree, True)
    return out


# ---------------------------------------------------------------------------------------
# elaboration
# ---------------------------------------------------------------------------------------

class BlockCtx(object):
    def __init__(self, idx):
        import pyrtl
        self.block = pyrtl.Block()
        self.idx = idx
        with pyrtl.set_working_block(self.block, no_sanity_check=True):
            self.preds = [pyrtl.Input(1, 'p%d' % i) for i in range(NPRED)]
            self.data = [pyrtl.Input(8, 'd%d' % i) for i in range(2)]
            self.en = pyrtl.Input(1, 'e0')
            self.addrs = [pyrtl.Input(2, 'a%d' % i) for i in range(2)]
            self.wide = pyrtl.Input(2, 'widepred')
        self.programs = []         # (prog index, targets live, prog) for completed programs
        self.mentioned = []        # wires mentioned in defaults but not yet driven
        self.healthy = True


def make_targets(prog, pi, ctx, res, adopt=True):
    import pyrtl
    live = []
    for ti, t in enumerate(prog['targets']):
        name = 'g%d_t%d' % (pi, ti)
        if t['kind'] == 'wire':
            if adopt and ti == 0 and ctx.mentioned and prog.get('adopt_mentioned') \
                    and prog['defaults'] is None:
                w = ctx.mentioned.pop()
                res.probes.hit('adopted_mention_only_wire')
            else:
                w = pyrtl.WireVector(8, name)
            live.append(w)
        elif t['kind'] == 'reg':
            live.append(pyrtl.Register(8, name))
        else:
            shared_mem = getattr(ctx, 'last_mem', None)
            if adopt and prog.get('reuse_mem') and shared_mem is not None and \
                    not any(m is shared_mem for m in live):
                # one memory, a write port from each of two conditional blocks
                live.append(shared_mem)
                res.probes.hit('memory_written_from_two_blocks')
            else:
                live.append(pyrtl.MemBlock(8, 2, name=name, max_write_ports=None, max_read_ports=None,
                                           asynchronous=True))
    return live


def elaborate(prog, pi, ctx, res, share_next=None, shared=None):
    """share_next = (pj, progj, ctxj): the caller builds ONE defaults dict for this program and
    for program pj (whose targets are created now, in ctxj) and passes the same object to both
    conditional blocks; shared = (live, defaults) is what program pj then receives."""
    """Run one program in ctx.block. Returns ('ok', live targets) | ('aborted', reason) or a
    Violation."""
    import pyrtl
    blk = ctx.block
    live = []
    stmt = [0]
    asg_idx = [0]
    fault = prog.get('fault')
    catch_branch = None
    if fault and fault['kind'] == 'user_exception' and fault.get('caught_at_branch'):
        catch_branch = truncate_at(prog['tree'], fault['at'])     # None: nothing will catch it
    rej = first_rejection(prog['tree'])
    state = {'rejected_at': None}
    with pyrtl.set_working_block(blk, no_sanity_check=True):
        if shared is not None:
            live = shared[0]
        else:
            live = make_targets(prog, pi, ctx, res)
        defaults = None
        extra = None
        if shared is not None:
            defaults = shared[1]        # the very object an earlier block was given, as it is now
            res.probes.hit('defaults_dict_shared_by_two_blocks')
        elif prog['defaults'] is not None:
            # the caller may well build one defaults dict and pass the same object to several
            # conditional blocks of a design: every second defaults-program of a block does so
            reuse = getattr(ctx, 'defaults_obj', None)
            if reuse is not None and pi % 2 == 1:
                defaults = reuse
                res.probes.hit('defaults_dict_object_reused')
            else:
                defaults = {}
            ctx.defaults_obj = defaults
            for k, v in prog['defaults'].items():
                defaults[live[int(k)]] = ctx.data[1] if v == 'd1' else v
            if prog.get('mention_only'):
                extra = pyrtl.WireVector(8, 'g%d_mention' % pi)
                defaults[extra] = 77
            if share_next is not None:
                pj, progj, ctxj = share_next
                with pyrtl.set_working_block(ctxj.block, no_sanity_check=True):
                    livej = make_targets(progj, pj, ctxj, res, adopt=False)
                for k, v in progj['defaults'].items():
                    defaults[livej[int(k)]] = ctxj.data[1] if v == 'd1' else v
                ctxj.shared = (livej, defaults)

        def val_of(a):
            v = a['val']
            if v == 'self':
                if prog['targets'][a['assign']]['kind'] != 'reg':
                    return 9                # (only a register can be told to keep its value)
                return live[a['assign']]
            if isinstance(v, str) and v[0] == 'm':
                if prog['targets'][a['assign']]['kind'] != 'mem':
                    return 9
                return live[a['assign']][int(v[1:])] ^ 0x5a
            return ctx.data[int(v[1:])] if isinstance(v, str) else v

        def tick():
            stmt[0] += 1
            if fault and fault['at'] == stmt[0]:
                if fault['kind'] == 'user_exception':
                    raise UserCodeError('injected')
                if fault['kind'] == 'wide_predicate':
                    if fault.get('caught'):
                        try:
                            with ctx.wide:
                                pass
                        except pyrtl.PyrtlError:
                            res.faults.hit('wide_predicate_caught_inside')
                    else:
                        with ctx.wide:
                            pass
                if fault['kind'] == 'nested':
                    if fault.get('caught'):
                        mw = pyrtl.WireVector(8, 'g%d_nestmention' % pi)
                        try:
                            with pyrtl.conditional_assignment(defaults={mw: 77}):
                                pass
                        except pyrtl.PyrtlError:
                            res.faults.hit('nested_block_with_defaults_refused_and_caught')
                        ctx.mentioned.append(mw)
                    else:
                        with pyrtl.conditional_assignment:
                            pass

        def emit(items):
            for it in items:
                tick()
                if 'assign' in it:
                    tgt = live[it['assign']]
                    kind = prog['targets'][it['assign']]['kind']
                    me = asg_idx[0]
                    asg_idx[0] += 1
                    try:
                        if kind == 'wire':
                            tgt |= val_of(it)
                        elif kind == 'reg':
                            tgt.next |= val_of(it)
                        else:
                            at = it['addr']
                            if isinstance(at, str):
                                at = ctx.addrs[int(at[1:])]
                            if it['en']:
                                tgt[at] |= pyrtl.MemBlock.EnabledWrite(val_of(it), ctx.en)
                            else:
                                tgt[at] |= val_of(it)
                    except pyrtl.PyrtlError:
                        if prog.get('catch_inside'):
                            state.setdefault('caught', []).append(me)
                            continue
                        state['rejected_at'] = me
                        raise
                    if rej and rej[0] == me and rej[1] == 'conflict':
                        state['accepted_conflict'] = me
                else:
                    c = pyrtl.otherwise if it['pred'] == 'otherwise' else ctx.preds[it['pred']]
                    if catch_branch is not None and not state.get('caught_user'):
                        try:
                            with c:
                                emit(it['body'])
                        except UserCodeError:
                            if state.get('caught_user'):
                                raise
                            state['caught_user'] = True
                            res.faults.hit('user_exception_caught_around_branch')
                    else:
                        with c:
                            emit(it['body'])

        outcome = None
        full = None
        if fault and fault['kind'] == 'finalize_refused':
            full = pyrtl.MemBlock(8, 2, name='g%d_full' % pi, max_write_ports=1, asynchronous=True)
            full[0] <<= 1
        try:
            if defaults is not None:
                with pyrtl.conditional_assignment(defaults=defaults):
                    emit(prog['tree'])
                    if full is not None:
                        with ctx.preds[0]:
                            full[1] |= 2
            else:
                with pyrtl.conditional_assignment:
                    emit(prog['tree'])
                    if full is not None:
                        with ctx.preds[0]:
                            full[1] |= 2
            outcome = 'ok'
        except UserCodeError:
            outcome = 'user_exception'
            res.faults.hit('user_exception')
        except pyrtl.PyrtlError as e:
            outcome = 'pyrtl_error'
            state['exc'] = repr(e)[:200]
        except HarnessError:
            raise
        except Exception as e:
            # neither the injected user exception nor a PyRTL refusal: the library crashed
            return Violation('elaboration', 'unexpected_exception',
                             {'program': pi, 'exc': repr(e)[:300]}, [])
        if pyrtl.currently_under_condition():
            return Violation('state', 'still_under_condition_after_block',
                             {'program': pi, 'outcome': outcome}, ['after:' + str(outcome)])
        if state.get('caught_user') and outcome == 'ok':
            if catch_branch is None:
                raise HarnessError('a user exception was caught where none was predicted')
            prog = dict(prog, tree=catch_branch)
        if prog.get('catch_inside') and outcome == 'ok':
            red = reduce_conflicts(prog['tree'])
            if red is None:
                raise HarnessError('catch_inside program with an empty refusal')
            caught = sorted(state.get('caught', []))
            res.faults.hit('refusals_caught_inside_block', len(caught))
            unpredicted = [i for i in caught if i not in red[1]]
            missing = [i for i in red[1] if i not in caught]
            if unpredicted:
                return Violation('conflict', 'conflict_free_assignment_rejected',
                                 {'program': pi, 'assignment': unpredicted[0], 'predicted': sorted(red[1])},
                                 ['caught_inside'])
            if missing:
                return Violation('conflict', 'conflicting_program_accepted',
                                 {'program': pi, 'assignment': missing[0]}, ['caught_inside'])
            prog = dict(prog, tree=red[0], catch_inside=False)
            rej = None
        if 'accepted_conflict' in state and (fault is None or outcome == 'ok'):
            return Violation('conflict', 'conflicting_program_accepted',
                             {'program': pi, 'assignment': state['accepted_conflict']}, [])
        if outcome == 'pyrtl_error':
            at = state['rejected_at']
            if at is None and full is not None:
                res.faults.hit('finalization_refused_on_the_way_out')
            elif at is None:
                # raised by a with-statement: only the injected faults may do that
                if fault and fault['kind'] in ('wide_predicate', 'nested') and stmt[0] >= fault['at']:
                    res.faults.hit(fault['kind'])
                    return ('aborted', fault['kind'])
                return Violation('elaboration', 'unexpected_pyrtl_error',
                                 {'program': pi, 'exc': state.get('exc')}, [])
            elif rej and rej[0] == at:
                res.faults.hit('rejected_' + rej[1])
                return ('aborted', rej[1])
            else:
                return Violation('conflict', 'conflict_free_assignment_rejected',
                                 {'program': pi, 'assignment': at, 'exc': state.get('exc'),
                                  'predicted': rej}, [])
        elif full is not None and outcome == 'ok':
            return Violation('elaboration', 'second_write_port_on_one_port_memory_accepted',
                             {'program': pi}, [])
        if outcome == 'user_exception':
            # the exception left the whole block and was handled outside it: what had been
            # assigned before it is in force (the block is finalized on its way out), the design
            # is kept and completed
            pre = prefix_at(prog['tree'], fault['at']) if (rej is None and fault) else None
            if pre is None or state.get('caught_user'):
                return ('aborted', 'user_exception')
            prog = dict(prog, tree=pre)
            res.faults.hit('user_exception_left_the_block_design_kept')
        if rej and rej[1] == 'conflict':
            return Violation('conflict', 'conflicting_program_accepted',
                             {'program': pi, 'assignment': rej[0]}, [])
        # completed: give every target an observer
        for ti, t in enumerate(prog['targets']):
            if t['kind'] in ('wire', 'reg'):
                assigned = any(a['assign'] == ti for a, _l in walk_assignments(prog['tree']))
                if not assigned:
                    if t['kind'] == 'wire':
                        live[ti] <<= 0      # never assigned in the tree: tie it off
                    else:
                        live[ti].next <<= live[ti]
                o = pyrtl.Output(8, 'g%d_o%d' % (pi, ti))
                o <<= live[ti]
        if extra is not None:
            ctx.mentioned.append(extra)
        mems_here = [live[ti] for ti, t in enumerate(prog['targets']) if t['kind'] == 'mem']
        if mems_here:
            ctx.last_mem = mems_here[0]
    return ('ok', live, prog)


def run(case, res):
    import pyrtl
    import random
    sched = case['sched']
    world.setup_world(sched)
    ctxs = []
    cur = None
    pending = {}
    progs = case['programs']
    for pi, prog in enumerate(progs):
        if pi in pending:
            cur = pending.pop(pi)
            r = elaborate(prog, pi, cur, res, shared=cur.shared)
        else:
            r = None
        if r is not None:
            pass
        elif prog['block'] == 'fresh' or cur is None or not cur.healthy:
            healthy = [c for c in ctxs if c.healthy]
            if prog['block'] == 'same' and healthy:
                cur = healthy[-1]
            else:
                cur = BlockCtx(len(ctxs))
                ctxs.append(cur)
        if r is None:
            share_next = None
            if prog['defaults'] is not None:
                nxt = [j for j in range(pi + 1, len(progs)) if progs[j]['defaults'] is not None][:1]
                if nxt and progs[nxt[0]].get('shared_defaults') and nxt[0] not in pending:
                    cj = BlockCtx(len(ctxs))
                    ctxs.append(cj)
                    pending[nxt[0]] = cj
                    share_next = (nxt[0], progs[nxt[0]], cj)
            r = elaborate(prog, pi, cur, res, share_next=share_next)
        if isinstance(r, Violation):
            return r
        res.log.log('builder', 'program', pi, r[0] if r[0] != 'ok' else 'ok')
        if r[0] == 'aborted':
            cur.healthy = False
            res.probes.hit('aborted:' + r[1])
        else:
            cur.programs.append((pi, r[1], r[2]))
            res.probes.hit('completed')
            if prog['defaults'] is not None:
                res.probes.hit('completed_with_defaults')
    # ---- simulate every healthy block and judge its completed programs ------------------
    cycles = list(case['cycles'])
    if case.get('exhaustive_preds'):
        rng = random.Random(sched.get('hash_seed', 0))
        allv = [[(k >> i) & 1 for i in range(NPRED)] for k in range(1 << NPRED)]
        rng.shuffle(allv)
        cycles = [{'p': v, 'd': [rng.randrange(256), rng.randrange(256)], 'e': rng.randrange(2),
                   'a': [rng.randrange(4), rng.randrange(4)]}
                  for v in allv]
    for ctx in ctxs:
        if not ctx.healthy or not ctx.programs:
            continue
        blk = ctx.block
        with pyrtl.set_working_block(blk, no_sanity_check=True):
            for w in ctx.mentioned:
                w <<= 0          # a wire only ever mentioned in defaults: tie it off
            ctx.mentioned = []
        try:
            sim = pyrtl.Simulation(tracer=pyrtl.SimulationTrace(block=blk), block=blk)
        except (pyrtl.PyrtlError, pyrtl.PyrtlInternalError) as e:
            return Violation('elaboration', 'completed_block_not_well_formed',
                             {'exc': repr(e)[:300]}, [])
        model = {}
        memmodel = {}          # id(MemBlock) -> [contents, tainted, (pi, ti, MemBlock)]
        for pi, live, prog in ctx.programs:
            touched = {a['assign'] for a, _l in walk_assignments(prog['tree'])}
            for ti, t in enumerate(prog['targets']):
                if t['kind'] == 'mem':
                    if ti in touched:
                        memmodel.setdefault(id(live[ti]), [{}, False, (pi, ti, live[ti])])
                        model[(pi, ti)] = memmodel[id(live[ti])][0]
                    else:
                        model[(pi, ti)] = {}       # never written here: not judged through this program
                else:
                    model[(pi, ti)] = 0
        for ci, cyc in enumerate(cycles):
            ins = {'p%d' % i: cyc['p'][i] for i in range(NPRED)}
            ins.update({'d0': cyc['d'][0], 'd1': cyc['d'][1], 'e0': cyc['e'], 'widepred': 0})
            avals = cyc.get('a', [0, 0])
            ins.update({'a0': avals[0], 'a1': avals[1]})
            sim.step(ins)
            res.cycles += 1
            written = {}           # id(MemBlock) -> addresses written this cycle
            memsnap = {mid: dict(v[0]) for mid, v in memmodel.items()}
            for pi, live, prog in ctx.programs:
                act = active_assignments(prog['tree'], cyc['p'])
                by_t = {}
                for a in act:
                    by_t.setdefault(a['assign'], []).append(a)
                assigned = {a['assign'] for a, _l in walk_assignments(prog['tree'])}
                for ti, t in enumerate(prog['targets']):
                    if ti not in assigned:
                        continue       # never touched by the conditional machinery
                    alist = by_t.get(ti, [])
                    if len(alist) > 1:
                        raise HarnessError('oracle: two active assignments in an accepted program')

                    def val(a):
                        if a['val'] == 'self':
                            if t['kind'] != 'reg':
                                return 9
                            return model[(pi, ti)]          # r.next |= r: keeps what it holds
                        if isinstance(a['val'], str) and a['val'][0] == 'm':
                            if t['kind'] != 'mem':
                                return 9
                            # what the memory held before this cycle's writes
                            return memsnap[id(live[ti])].get(int(a['val'][1:]), 0) ^ 0x5a
                        return cyc['d'][int(a['val'][1:])] if isinstance(a['val'], str) else a['val']
                    dflt = None
                    if prog['defaults'] is not None and str(ti) in prog['defaults']:
                        dv = prog['defaults'][str(ti)]
                        dflt = cyc['d'][1] if dv == 'd1' else dv
                    tags = ['target:' + t['kind'], 'defaults' if prog['defaults'] is not None else 'plain']
                    if t['kind'] == 'wire':
                        exp = val(alist[0]) if alist else (dflt if dflt is not None else 0)
                        got = sim.inspect('g%d_o%d' % (pi, ti))
                        if got != exp:
                            return Violation('target_value', 'wire_mismatch',
                                             {'program': pi, 'target': ti, 'cycle': ci, 'expected': exp,
                                              'got': got, 'active': bool(alist), 'preds': cyc['p']},
                                             tags + (['inactive'] if not alist else ['active']))
                    elif t['kind'] == 'reg':
                        exp_now = model[(pi, ti)]
                        got = sim.inspect('g%d_o%d' % (pi, ti))
                        if got != exp_now:
                            return Violation('target_value', 'register_mismatch',
                                             {'program': pi, 'target': ti, 'cycle': ci,
                                              'expected': exp_now, 'got': got, 'preds': cyc['p']}, tags)
                        if alist:
                            model[(pi, ti)] = val(alist[0])
                        elif dflt is not None:
                            model[(pi, ti)] = dflt
                    else:
                        if alist:
                            a = alist[0]
                            if a['en'] is None or cyc['e']:
                                w_ = written.setdefault(id(live[ti]), set())
                                at = a['addr']
                                if isinstance(at, str):
                                    at = avals[int(at[1:])]
                                if at in w_:
                                    # two ports write one word in one cycle: undefined from here
                                    memmodel[id(live[ti])][1] = True
                                w_.add(at)
                                model[(pi, ti)][at] = val(a)
            for mid, (content, tainted, (pi, ti, mobj)) in sorted(memmodel.items(),
                                                                 key=lambda kv: kv[1][2][:2]):
                if tainted:
                    continue
                got = dict(sim.inspect_mem(mobj))
                if got != content:
                    return Violation('target_value', 'memory_mismatch',
                                     {'program': pi, 'target': ti, 'cycle': ci,
                                      'expected': content, 'got': got, 'preds': cyc['p']},
                                     ['target:mem'])
        res.probes.hit('blocks_simulated')
    res.shape = hashlib.sha1(repr([_shape(p['tree']) for p in case['programs']]).encode()).hexdigest()[:12]
    res.sched = hashlib.sha1(repr([(p['block'], p['defaults'] is not None, p['fault'])
                                   for p in case['programs']]).encode()).hexdigest()[:12]
    res.nontrivial = res.cycles > 0 or any(p.get('fault') for p in case['programs'])
    return None


def _shape(tree):
    return [('a', it['assign']) if 'assign' in it else (it['pred'], _shape(it['body'])) for it in tree]


# ---------------------------------------------------------------------------------------

def _tree_variants(tree):
    """Smaller trees: drop one item anywhere."""
    for i in range(len(tree)):
        t = copy.deepcopy(tree)
        del t[i]
        yield t
    for i, it in enumerate(tree):
        if 'assign' not in it:
            for sub in _tree_variants(it['body']):
                t = copy.deepcopy(tree)
                t[i]['body'] = sub
                yield t
            # hoist the body in place of the branch
            t = copy.deepcopy(tree)
            t[i:i + 1] = copy.deepcopy(it['body'])
            if any('assign' not in x for x in t) or not t:
                yield t


def candidates(case):
    n = len(case['programs'])
    if n > 1:
        for i in range(n):
            c = copy.deepcopy(case)
            del c['programs'][i]
            yield c
    if case.get('exhaustive_preds'):
        c = copy.deepcopy(case)
        c['exhaustive_preds'] = False
        yield c
    cyc = case['cycles']
    for k in range(len(cyc) - 1, 0, -1):
        c = copy.deepcopy(case)
        c['cycles'] = cyc[:k]
        yield c
    for i, p in enumerate(case['programs']):
        if p.get('fault'):
            c = copy.deepcopy(case)
            c['programs'][i]['fault'] = None
            yield c
        if p.get('mention_only'):
            c = copy.deepcopy(case)
            c['programs'][i]['mention_only'] = False
            yield c
        for t in _tree_variants(p['tree']):
            c = copy.deepcopy(case)
            c['programs'][i]['tree'] = t
            yield c


def sample_of(case):
    return {'programs': [{'block': p['block'], 'defaults': p['defaults'], 'fault': p['fault'],
                          'targets': [t['kind'] for t in p['targets']], 'tree': _shape(p['tree'])}
                         for p in case['programs']],
            'cycles': case['cycles'][:2], 'exhaustive_preds': case.get('exhaustive_preds')}
