"""C15 -- all observation channels of a simulation agree; illegal inputs are refused.

World: one design on one of the three simulators plus a twin of the same kind driven by
step_multiple; histories of legal steps with rejected steps injected between them; an
rtl_assert whose wire falls to 0 at a cycle the reference model predicts.
Oracles: inspect == last trace entry after every step; trace length == accepted steps;
twin (step_multiple) trace identical; expected_outputs report lists exactly the planted
wrong cells; print_vcd and print_trace (bases 2/8/10/16, compact and not) parse back /
re-encode to exactly the traced values (compared as multisets of lines -- line order is
C20's business); assertion raised on exactly the first failing cycle (Simulation,
FastSimulation); out-of-range inputs (negative and too large) refused by all three.
"""
import copy
import hashlib
import io
import re

from .. import gen, shrink, world, replica
from ..common import Violation, HarnessError, mask
from ..netlist import script_shape
from ..refsim import DoubleWrite

ID = 'C15'
LEVEL = 'exploration'
RUN_TIMEOUT_S = 60.0
MIN_BUDGET = 150

TIERS = {
    'quick': {'runs': 16000, 'classes': 8, 'budget_s': 60},
    'thorough': {'runs': 250000, 'classes': 32, 'budget_s': 1100},
}

COMPONENTS = {'real': ['pyrtl.Simulation', 'pyrtl.FastSimulation', 'pyrtl.CompiledSimulation',
                       'SimulationTrace.print_vcd/print_trace', 'step_multiple report',
                       'rtl_assert/check_rtl_assertions'],
              'stub': ['RefSim (predicts the assertion cycle, legal values)',
                       'VCD / print_trace / report readers written for this check']}


from ..common import PlantedAssertion as _PA


class PlantedAssertion(_PA):
    pass


def gen_case(streams, tier):
    g = streams['gen']
    kind = g.choice(['sim', 'fast', 'compiled'] if g.random() < 0.6 else ['sim', 'fast'])
    cfg = gen.make_cfg(nets=(2, 14), names=g.choice(['plain', 'awkward']),
                       mem_wide_aw=0.0, awk_pair_prob=0.3)
    script = gen.gen_script(g, cfg)
    script, stage = gen.maybe_stage(g, script, 0.2, ['sim', 'fast', 'export', 'analysis', 'optimized_copy', 'copy', 'reset'])
    ncyc = streams['inputs'].randint(3, 14)
    has_mem = any(not m.get('rom') for m in script['mems'])
    init = gen.gen_init(g, script, allow_default=not (kind == 'compiled' and has_mem))
    f = streams['faults']
    faults = world.gen_reject_faults(f, script, ncyc, rate=0.7)
    dv = init.get('default', 0)
    narrow = [w['n'] for w in script['wires'] if w['k'] == 'I' and dv >= (1 << w['w'])]
    if narrow:
        # the never-validated start value of an input wire is default_value: offer exactly it
        faults.append({'kind': 'reject_step', 'at': 0, 'wire': f.choice(narrow), 'value': dv})
    one_bit = [w['n'] for w in script['wires'] if w['w'] == 1 and w['k'] in 'WRI']
    assertion = None
    assertion2 = None
    if one_bit and kind != 'compiled' and f.random() < 0.5:
        assertion = f.choice(one_bit)
        rest = [n for n in one_bit if n != assertion]
        if rest and f.random() < 0.5:
            assertion2 = f.choice(rest)       # a second, later-registered assertion
    shadow = None
    ins_w = [(w['n'], w['w']) for w in script['wires'] if w['k'] == 'I']
    if ins_w and f.random() < 0.35:
        n_, w_ = f.choice(ins_w)
        shadow = {'at': f.randrange(ncyc), 'name': n_, 'width': w_, 'seed': f.getrandbits(32)}
        # and offer an out-of-range value on that very input right afterwards
        faults.append({'kind': 'reject_step', 'at': shadow['at'], 'wire': n_,
                       'value': (1 << w_) + f.getrandbits(2)})
    outs = [w['n'] for w in script['wires'] if w['k'] == 'O']
    wrong = []
    for _ in range(f.randint(0, 4)):
        wrong.append([f.randrange(ncyc), f.choice(outs), f.randint(1, 3)])
    return {
        'prop': ID, 'kind': kind, 'script': script, 'init': init,
        'cycles': gen.gen_inputs(streams['inputs'], script, ncyc),
        'faults': faults, 'assert_wire': assertion, 'assert_wire2': assertion2,
        'wrong_cells': wrong, 'shadow': shadow,
        'batches': [streams['sched'].randint(1, 4) for _ in range(ncyc)],
        'vcd_clock': g.random() < 0.3,
        'stage': stage,
        'writer_fault': f.randrange(0, 30) if f.random() < 0.3 else None,
        'assert_exc': f.choice(['custom', 'custom', 'pyrtl', 'value', 'internal']),
        'bad_batch': f.randrange(64) if f.random() < 0.4 else None,
        'short_expected': f.randrange(64) if f.random() < 0.3 else None,
        # the wires to trace given as an explicit list in which some wire is mentioned twice
        # (interface wires plus wires of interest, with an overlap)
        'dup_track': f.randrange(64) if f.random() < 0.3 else None,
        # the trace is printed (every base, compact and not, and as VCD) in the middle of the run,
        # after this many cycles, and the run goes on: the prints at the end must show all of it
        'print_midway': f.randrange(1, ncyc) if ncyc >= 2 and f.random() < 0.35 else None,
        'sched': world.gen_sched(streams),
    }


# ---------------------------------------------------------------------------------------
# readers
# ---------------------------------------------------------------------------------------

def parse_vcd(text):
    """-> (vars {id: width}, dumpvars {id: value}, times [(t, {id: value})], end time)"""
    lines = text.split('\n')
    vars_ = {}
    dump = {}
    times = []
    cur = None
    in_dump = False
    end = None
    for ln in lines:
        ln = ln.strip()
        if not ln:
            continue
        if ln.startswith('$var'):
            tok = ln.split()
            if len(tok) != 6 or tok[1] != 'wire' or tok[5] != '$end' or tok[3] != tok[4]:
                raise ValueError('bad $var line: %r' % ln)
            if tok[3] in vars_:
                raise ValueError('duplicate vcd identifier %r' % tok[3])
            vars_[tok[3]] = int(tok[2])
        elif ln == '$dumpvars':
            in_dump = True
        elif ln == '$end' and in_dump:
            in_dump = False
        elif ln.startswith('$'):
            continue
        elif ln.startswith('#'):
            cur = {}
            times.append((int(ln[1:]), cur))
            end = int(ln[1:])
        elif ln.startswith('b'):
            m = re.match(r'^b([01]+) (\S+)$', ln)
            if not m:
                raise ValueError('bad value line: %r' % ln)
            tgt = dump if in_dump else cur
            if tgt is None:
                raise ValueError('value before first timestamp')
            if m.group(2) in tgt:
                raise ValueError('identifier %s assigned twice at one time' % m.group(2))
            tgt[m.group(2)] = int(m.group(1), 2)
        else:
            raise ValueError('unexpected vcd line %r' % ln)
    return vars_, dump, times, end


def check_vcd(sim, include_clock, widths):
    tr = sim.tracer
    buf = io.StringIO()
    tr.print_vcd(buf, include_clock=include_clock)
    try:
        vars_, dump, times, end = parse_vcd(buf.getvalue())
    except ValueError as e:
        return Violation('vcd', 'unparsable', {'err': str(e)})
    names = list(tr.trace)
    n = len(tr.trace[names[0]])
    ids = {}
    for name in names:
        i = tr.internal_names[name]
        if i in ids.values():
            return Violation('vcd', 'identifier_collision', {'name': name, 'id': i})
        ids[name] = i
    exp_ids = set(ids.values()) | ({'clk'} if include_clock else set())
    if set(vars_) != exp_ids:
        return Violation('vcd', 'var_set_mismatch', {'vcd': sorted(vars_), 'expected': sorted(exp_ids)})
    for name, i in ids.items():
        if vars_[i] != widths[name]:
            return Violation('vcd', 'width_mismatch', {'name': name, 'vcd': vars_[i]})
        if i in dump and dump[i] != tr.trace[name][0]:
            return Violation('vcd', 'dumpvars_mismatch', {'name': name, 'vcd': dump.get(i),
                                                           'trace': tr.trace[name][0]})
    main = [(t, v) for t, v in times if t % 10 == 0 and t < n * 10]
    if [t for t, _ in main] != [10 * k for k in range(n)]:
        return Violation('vcd', 'timestamps', {'got': [t for t, _ in times][:20], 'n': n})
    if end != n * 10:
        return Violation('vcd', 'end_time', {'got': end, 'n': n})
    # value-change-dump semantics: a signal keeps its last dumped value until it is dumped again
    cur = dict(dump)
    for k, (t, vals) in enumerate(main):
        cur.update(vals)
        for name, i in ids.items():
            if cur.get(i) != tr.trace[name][k]:
                return Violation('vcd', 'value_mismatch', {'name': name, 'cycle': k,
                                                           'vcd': cur.get(i),
                                                           'trace': tr.trace[name][k]})
    return None


def check_print_trace(sim):
    tr = sim.tracer
    names = list(tr.trace)
    ident = max(len(n) for n in names)
    for base, key in ((2, 'b'), (8, 'o'), (10, 'd'), (16, 'x')):
        buf = io.StringIO()
        tr.print_trace(buf, base=base, compact=False)
        lines = buf.getvalue().split('\n')
        if lines[-1] != '':
            return Violation('print_trace', 'no_trailing_newline', {'base': base})
        lines = lines[:-1]
        if 'Values in base %d' % base not in lines[0]:
            return Violation('print_trace', 'header', {'base': base, 'line': lines[0]})
        got = {}
        for ln in lines[1:]:
            name = ln[:ident + 1].rstrip(' ')
            if len(ln) < ident + 1 or name in got:
                return Violation('print_trace', 'bad_line', {'base': base, 'line': ln[:200]})
            try:
                got[name] = [int(x, base) for x in ln[ident + 1:].split()]
            except ValueError:
                return Violation('print_trace', 'bad_line', {'base': base, 'line': ln[:200]})
        want = {n: list(tr.trace[n]) for n in names}
        if got != want:
            bad = [n for n in want if got.get(n) != want[n]][:3]
            return Violation('print_trace', 'value_mismatch',
                             {'base': base, 'names': bad, 'extra': [n for n in got if n not in want][:3]})
        buf = io.StringIO()
        tr.print_trace(buf, base=base, compact=True)
        got_lines = sorted(buf.getvalue().split('\n')[:-1])
        want_lines = sorted(n.rjust(ident) + ' ' + ''.join(format(x, key) for x in tr.trace[n])
                            for n in names)
        if got_lines != want_lines:
            return Violation('print_trace', 'compact_mismatch', {'base': base})
    return None


def parse_report(text):
    lines = text.split('\n')
    if not text:
        return []
    if not lines[0].startswith('Unexpected output'):
        raise ValueError('report header %r' % lines[0])
    cells = []
    for ln in lines[2:]:
        if not ln:
            continue
        left, exp, act = ln.rsplit(None, 2)
        left = left.lstrip(' ')
        step, name = left.split(' ', 1)
        cells.append((int(step), name.lstrip(' '), int(exp), int(act)))
    return cells


# ---------------------------------------------------------------------------------------

def run(case, res):
    import pyrtl
    script = case['script']
    init = case['init']
    sched = case['sched']
    kind = case['kind']
    world.setup_world(sched)
    b = world.build_dut(script, sched, stage=world.stage_with_hook(case.get('stage'), res))
    aw = case.get('assert_wire')
    aw2 = case.get('assert_wire2') if aw else None
    # the exception object the user registers: any Exception instance (except KeyError) is
    # allowed, a PyrtlError of the user's own included
    ek = case.get('assert_exc', 'custom')
    mk = {'custom': PlantedAssertion, 'pyrtl': pyrtl.PyrtlError, 'value': ValueError,
          'internal': pyrtl.PyrtlInternalError}[ek]
    planted_excs = [mk('planted'), mk('planted2')]

    def is_planted(e):
        return any(e is x for x in planted_excs)
    if aw and aw in b.wires:
        with pyrtl.set_working_block(b.block, no_sanity_check=True):
            pyrtl.rtl_assert(b.wires[aw], planted_excs[0], block=b.block)
            if aw2 and aw2 in b.wires:
                pyrtl.rtl_assert(b.wires[aw2], planted_excs[1], block=b.block)
                res.probes.hit('two_assertions')
        res.probes.hit('assert_exc:' + ek)
    live = replica.Live.from_built(b)
    ref = world.ref_for(script, init)
    tape = case['cycles']
    # reference trace (also predicts the assertion cycle)
    exp = []
    fire = None
    for ci, cyc in enumerate(tape):
        try:
            v = ref.step(cyc)
        except DoubleWrite:
            break
        exp.append(v)
        if aw and fire is None and (v[aw] == 0 or (aw2 and v[aw2] == 0)):
            fire = ci
            if v[aw] == 0 and aw2 and v[aw2] == 1:
                res.probes.hit('first_assertion_fails_while_second_holds')
            break
    ncyc = len(exp)
    if ncyc == 0:
        return None
    tape = tape[:ncyc]
    tracer = 'all' if kind != 'compiled' else None
    try:
        twin = replica.make_sim(kind, live, init, tracer='all')
        track = 'all'
        if case.get('dup_track') is not None and len(twin.tracer.trace) >= 1:
            names = sorted(twin.tracer.trace)
            track = [b.block.wirevector_by_name[n] for n in names]
            track.insert(case['dup_track'] % (len(track) + 1), track[case['dup_track'] % len(names)])
            res.faults.hit('wire_listed_twice_in_wires_to_track')
        sim = replica.make_sim(kind, live, init, tracer=track)
    except HarnessError:
        raise
    except Exception as e:
        return Violation('constructor', 'simulator_refuses_valid_block', {'exc': repr(e)[:300]}, [kind])
    widths = {w.name: w.bitwidth for w in b.block.wirevector_set}
    ins_w_all = sorted((w['n'], w['w']) for w in script['wires'] if w['k'] == 'I')
    res.shape = hashlib.sha1((kind + script_shape(script)).encode()).hexdigest()[:12]
    res.sched = hashlib.sha1(repr([case['batches'], sched.get('hash_seed')]).encode()).hexdigest()[:12]
    res.probes.hit('kind:' + kind)
    faults = {}
    for f in case['faults']:
        faults.setdefault(f['at'], []).append(f)
    accepted = 0
    keepalive = []
    for ci, cyc in enumerate(tape):
        sh = case.get('shadow')
        if sh and sh['at'] == ci:
            keepalive.append(world.foreign_shadow_sim(sh['seed'], sh['name'], sh['width']))
            res.faults.hit('foreign_shadow_simulator')
        for f in faults.get(ci, []):
            v = world.apply_reject(sim, f, cyc, kind)
            res.faults.hit('reject_step')
            fk = 'missing' if f['value'] == 'missing' else ('negative' if f['value'] < 0 else 'too_large')
            res.faults.hit('reject_' + fk)
            res.log.log('fault', 'reject', [f['wire'], fk], v is None)
            if v:
                v.tags = sorted(set(v.tags + [fk]))
                return v
        raised = None
        try:
            sim.step(dict(cyc))
        except Exception as e:
            if not is_planted(e):
                raise
            raised = e
        accepted += 1
        res.cycles += 1
        if fire is not None and ci == fire:
            res.faults.hit('assertion_falls')
            if raised is None:
                return Violation('rtl_assert', 'not_raised_on_first_failing_cycle',
                                 {'cycle': ci, 'wire': aw}, [kind])
        elif raised is not None:
            return Violation('rtl_assert', 'raised_early', {'cycle': ci, 'wire': aw}, [kind])
        if world.tracelen(sim) != accepted:
            return Violation('trace_length', 'mismatch', {'len': world.tracelen(sim),
                                                          'accepted': accepted}, [kind])
        for name in sim.tracer.trace:
            last = sim.tracer.trace[name][-1]
            try:
                ins = sim.inspect(name)
            except pyrtl.PyrtlError as e:
                return Violation('inspect', 'raises_for_traced_wire', {'wire': name,
                                                                       'exc': repr(e)[:200]}, [kind])
            if ins != last:
                return Violation('inspect', 'inspect_vs_trace', {'wire': name, 'cycle': ci,
                                                                 'inspect': ins, 'trace': last}, [kind])
            if name in exp[ci] and last != exp[ci][name]:
                # not C15's clause (C01/C02 own it) but a wrong trace would poison the
                # planted-cell bookkeeping below: stop quietly
                res.probes.hit('value_differs_from_reference')
                return None
        if case.get('print_midway') == ci + 1 and sim.tracer.trace:
            v = check_print_trace(sim) or check_vcd(sim, case.get('vcd_clock', False), widths)
            if v:
                v.tags = sorted(set(v.tags + [kind, 'printed_midway']))
                return v
            res.faults.hit('trace_printed_in_the_middle_of_the_run')
        res.log.log(kind, 'step', ci, raised is not None)
    # ---- twin driven in batches by step_multiple, with planted wrong expectations ------
    wrong = {}
    for step, name, delta in case['wrong_cells']:
        if step < ncyc and name in widths:
            wrong[(step, name)] = delta
    pos = 0
    planted = []
    report_cells = []
    bi = 0
    outs = [w['n'] for w in script['wires'] if w['k'] == 'O']
    while pos < ncyc:
        bsz = min(case['batches'][bi % len(case['batches'])], ncyc - pos)
        bi += 1
        chunk = tape[pos:pos + bsz]
        expected = {}
        for o in outs:
            col = []
            use = False
            for k in range(bsz):
                cell = (pos + k, o)
                true = exp[pos + k][o]
                if cell in wrong:
                    bad = true + wrong[cell]
                    if (pos + k + len(o)) % 3 == 1:
                        bad = -bad              # a wrong expectation may be any integer
                    col.append(bad)
                    planted.append((k, o, bad, true, pos))
                    use = True
                elif (pos + k + len(o)) % 3 == 0:
                    col.append('?')
                    use = True
                else:
                    col.append(true)
            if use or (len(o) % 2 == 0):
                expected[o] = col
        buf = io.StringIO()
        names = list(chunk[0].keys())
        # the documented stop_after_first_error option, on the last batch only (the twin then
        # legitimately executes fewer steps): it must stop right after the first step that has
        # a mismatch and report exactly that step's mismatches
        mine = [p for p in planted if p[4] == pos]
        stop_flag = bool(mine) and pos + bsz == ncyc and (fire is None) and sum(case['batches']) % 2 == 0
        if stop_flag:
            first_bad = min(p[0] for p in mine)
            planted = [p for p in planted if p[4] != pos or p[0] == first_bad]
            res.probes.hit('stop_after_first_error')
        try:
            if names:
                prov = {k: [c[k] for c in chunk] for k in names}
                if (pos + bsz) % 2 == 0:
                    # the documented single-digit string form, where it applies
                    for k in list(prov):
                        if all(0 <= v <= 9 for v in prov[k]):
                            prov[k] = ''.join(str(v) for v in prov[k])
                            res.probes.hit('string_form_inputs')
                    for o in list(expected):
                        if all(x == '?' or (isinstance(x, int) and 0 <= x <= 9) for x in expected[o]):
                            expected[o] = ''.join(str(x) for x in expected[o])
                            res.probes.hit('string_form_expected')
                twin.step_multiple(prov, expected, file=buf, stop_after_first_error=stop_flag)
            else:
                twin.step_multiple(nsteps=bsz, expected_outputs=expected, file=buf,
                                   stop_after_first_error=stop_flag)
        except Exception as e:
            if not is_planted(e):
                raise
            if fire is None or not (pos <= fire < pos + bsz):
                return Violation('rtl_assert', 'raised_early_in_step_multiple',
                                 {'batch_start': pos}, [kind])
            planted = [p for p in planted if p[4] != pos]
            pos = fire + 1
            break
        try:
            cells = parse_report(buf.getvalue())
        except ValueError as e:
            return Violation('report', 'unparsable', {'err': str(e), 'text': buf.getvalue()[:300]}, [kind])
        report_cells.extend((s, n, e, a, pos) for (s, n, e, a) in cells)
        res.probes.hit('step_multiple_batches')
        if case.get('print_midway') is not None and bi == 1 and not stop_flag and twin.tracer.trace \
                and world.tracelen(twin):
            v = check_print_trace(twin)
            if v:
                v.tags = sorted(set(v.tags + [kind, 'printed_midway', 'step_multiple']))
                return v
        if stop_flag:
            want_hdr = 'Unexpected output (stopped after step with first error):'
            if not buf.getvalue().startswith(want_hdr):
                return Violation('report', 'stop_after_first_error_header',
                                 {'text': buf.getvalue()[:120]}, [kind])
            if world.tracelen(twin) != pos + first_bad + 1:
                return Violation('step_multiple', 'did_not_stop_after_first_error',
                                 {'trace_len': world.tracelen(twin), 'expected': pos + first_bad + 1}, [kind])
            pos += first_bad + 1
            break
        pos += bsz
    if fire is not None and pos <= fire:
        return Violation('rtl_assert', 'not_raised_in_step_multiple', {'fire': fire}, [kind])
    upto = pos
    if sorted(planted) != sorted(report_cells):
        return Violation('report', 'cells_mismatch',
                         {'planted': sorted(planted)[:6], 'reported': sorted(report_cells)[:6]}, [kind])
    if planted:
        res.probes.hit('planted_cells_reported', len(planted))
    for name in sim.tracer.trace:
        a = list(sim.tracer.trace[name])[:upto]
        t = list(twin.tracer.trace[name])
        if a != t:
            return Violation('step_multiple', 'trace_differs_from_single_steps',
                             {'wire': name, 'steps': a[:8], 'multi': t[:8]}, [kind])
    # ---- a batch that is refused at its k-th step (k >= 1): the k steps before it are steps --
    if ncyc >= 2 and case.get('bad_batch') is not None and ins_w_all:
        k = 1 + case['bad_batch'] % (min(ncyc, 4) - 1)
        try:
            trip = replica.make_sim(kind, live, init, tracer='all')
        except Exception:
            trip = None
        if trip is not None:
            bw_name, bw_width = ins_w_all[case['bad_batch'] % len(ins_w_all)]
            cols = {n: [tape[j][n] for j in range(k + 1)] for n in tape[0]}
            cols[bw_name][k] = (1 << bw_width) + 1
            try:
                trip.step_multiple(cols, file=io.StringIO())
            except pyrtl.PyrtlError:
                res.faults.hit('batch_refused_at_a_later_step')
                if world.tracelen(trip) != k:
                    return Violation('step_multiple', 'steps_before_the_refused_one_not_taken',
                                     {'refused_at': k, 'trace_len': world.tracelen(trip)}, [kind])
                for name in trip.tracer.trace:
                    if list(trip.tracer.trace[name])[:k] != list(sim.tracer.trace[name])[:k]:
                        return Violation('step_multiple', 'trace_differs_from_single_steps',
                                         {'wire': name, 'refused_at': k}, [kind])
            except Exception as e:
                if not is_planted(e):
                    raise
            else:
                return Violation('reject_step', 'illegal_input_simulated',
                                 {'sim': kind, 'in_batch_at': k}, [kind])
            trip = None
    # ---- a batch whose expected_outputs list is shorter than the batch: refused, no step taken --
    outs_all = sorted(w['n'] for w in script['wires'] if w['k'] == 'O')
    if ncyc >= 2 and case.get('short_expected') is not None and outs_all and tape[0]:
        try:
            trip2 = replica.make_sim(kind, live, init, tracer='all')
        except Exception:
            trip2 = None
        if trip2 is not None:
            nst = min(ncyc, 4)
            oname = outs_all[case['short_expected'] % len(outs_all)]
            cols = {n: [tape[j][n] for j in range(nst)] for n in tape[0]}
            short = [exp[j][oname] for j in range(1 + case['short_expected'] % (nst - 1))]
            try:
                trip2.step_multiple(cols, {oname: short}, file=io.StringIO())
            except pyrtl.PyrtlError:
                res.faults.hit('batch_refused_for_short_expected_list')
                if world.tracelen(trip2) != 0:
                    return Violation('step_multiple', 'steps_taken_by_a_refused_batch',
                                     {'trace_len': world.tracelen(trip2), 'expected_given': len(short),
                                      'steps_asked': nst}, [kind])
            except Exception as e:
                if not is_planted(e):
                    raise
            else:
                res.probes.hit('short_expected_list_accepted')
            trip2 = None
    # ---- a batch whose input lists are of unequal length, the shortest listed first: refused ----
    if ncyc >= 2 and case.get('short_expected') is not None and tape[0] and len(tape[0]) >= 2:
        try:
            trip3 = replica.make_sim(kind, live, init, tracer='all')
        except Exception:
            trip3 = None
        if trip3 is not None:
            nst = min(ncyc, 4)
            names = sorted(tape[0])
            first = names[case['short_expected'] % len(names)]
            keep = 1 + case['short_expected'] % (nst - 1)
            cols = {first: [tape[j][first] for j in range(keep)]}
            for n in names:
                if n != first:
                    cols[n] = [tape[j][n] for j in range(nst)]
            try:
                trip3.step_multiple(cols, file=io.StringIO())
            except pyrtl.PyrtlError:
                res.faults.hit('batch_refused_for_unequal_input_lists')
                if world.tracelen(trip3) != 0:
                    return Violation('step_multiple', 'steps_taken_by_a_refused_batch',
                                     {'trace_len': world.tracelen(trip3), 'given': keep,
                                      'steps_asked': nst}, [kind, 'unequal_inputs'])
            except Exception as e:
                if not is_planted(e):
                    raise
            else:
                return Violation('step_multiple', 'unequal_input_lists_accepted',
                                 {'first_listed': first, 'its_values': keep, 'others': nst,
                                  'steps_taken': world.tracelen(trip3)}, [kind])
            trip3 = None
    # ---- writer fault: the file object fails on its k-th write; the trace is only read ----
    if case.get('writer_fault') is not None:
        before = {n: list(vs) for n, vs in sim.tracer.trace.items()}
        for what in ('print_vcd', 'print_trace'):
            fw = world.FaultyWriter(case['writer_fault'])
            try:
                if what == 'print_vcd':
                    sim.tracer.print_vcd(fw, include_clock=case.get('vcd_clock', False))
                else:
                    sim.tracer.print_trace(fw, base=16, compact=False)
            except OSError:
                res.faults.hit('writer_fault')
            else:
                if fw.nwrites > case['writer_fault']:
                    return Violation('writer_fault', 'io_error_swallowed', {'call': what}, [kind])
            after = {n: list(vs) for n, vs in sim.tracer.trace.items()}
            if after != before:
                return Violation('writer_fault', 'trace_changed_by_failed_print', {'call': what}, [kind])
    # ---- text channels ----------------------------------------------------------------
    v = check_vcd(sim, case.get('vcd_clock', False), widths)
    if v:
        v.tags = sorted(set(v.tags + [kind]))
        return v
    v = check_print_trace(sim)
    if v:
        v.tags = sorted(set(v.tags + [kind]))
        return v
    if case.get('print_midway') is not None and twin.tracer.trace and world.tracelen(twin):
        v = check_print_trace(twin)
        if v:
            v.tags = sorted(set(v.tags + [kind, 'step_multiple']))
            return v
    res.probes.hit('text_channels_checked')
    sim = twin = None
    res.nontrivial = True
    return None


def candidates(case):
    cyc = case['cycles']
    for k in range(len(cyc) - 1, 0, -1):
        c = copy.deepcopy(case)
        c['cycles'] = cyc[:k]
        c['faults'] = [f for f in c['faults'] if f['at'] < k]
        yield c
    for i in range(len(case['faults'])):
        c = copy.deepcopy(case)
        del c['faults'][i]
        yield c
    for c in shrink.drop_cycle_variants(case):
        yield c
    if case.get('assert_wire'):
        c = copy.deepcopy(case)
        c['assert_wire'] = None
        yield c
    if case.get('writer_fault') is not None:
        c = copy.deepcopy(case)
        c['writer_fault'] = None
        yield c
    if case.get('wrong_cells'):
        c = copy.deepcopy(case)
        c['wrong_cells'] = []
        yield c
    if case.get('shadow'):
        c = copy.deepcopy(case)
        c['shadow'] = None
        yield c
    if case['sched'].get('iter_policy') or case['sched'].get('perm_seed') is not None:
        c = copy.deepcopy(case)
        c['sched'].update({'iter_policy': None, 'perm_seed': None, 'noise': 0})
        yield c
    for s in shrink.script_candidates(case['script']):
        names = {w['n'] for w in s['wires']}
        if case.get('assert_wire') and case['assert_wire'] not in names:
            continue
        c = copy.deepcopy(case)
        c['script'] = s
        c['init'] = shrink.remap_init(case['init'], s)
        c['cycles'] = shrink.remap_cycles(case['cycles'], s)
        ins = {w['n'] for w in s['wires'] if w['k'] == 'I'}
        c['faults'] = [f for f in c['faults'] if f['wire'] in ins]
        outs = {w['n'] for w in s['wires'] if w['k'] == 'O'}
        c['wrong_cells'] = [x for x in c['wrong_cells'] if x[1] in outs]
        s.pop('_memremap', None)
        yield c
    if case['init'].get('regs') or case['init'].get('mems') or case['init'].get('default'):
        c = copy.deepcopy(case)
        c['init'] = {'regs': {}, 'mems': {}, 'default': 0}
        yield c


def sample_of(case):
    return {'kind': case['kind'], 'n_nets': len(case['script']['nets']),
            'nets': [[n['op'], n['a'], n['d']] for n in case['script']['nets'][:8]],
            'cycles': case['cycles'][:2], 'faults': case['faults'],
            'assert_wire': case['assert_wire'], 'wrong_cells': case['wrong_cells'],
            'batches': case['batches'][:6]}
