"""C11 -- copying and non-updating passes never disturb the source block.

World: a stateful session. A pool of blocks starts with 1..2 designs; 5..15 operations are
drawn: copy_block / synthesize / optimize (all with update_working_block=False) on a pool
block while the working block is that block, another pool block or an unrelated block;
edit (add logic + Output, rename a wire, add a memory read port) of a pool block;
simulate a pool block for k cycles; foreign_activity; pass_failure (the pass is offered a
malformed block and must refuse without touching anything).
Oracles after every operation: (1) the structural fingerprint of every block other than
the edit target is unchanged; (2) working_block() is the object it was before the call;
(3) a returned block shares no WireVector / MemBlock object with its source; (4) every
block's Output traces from reset equal those recorded for it when it entered the pool
(RefSim), and a returned block's traces equal its source's.
"""
import copy
import hashlib

from .. import gen, shrink, world, transforms
from ..common import Violation, HarnessError
from ..netlist import script_shape

ID = 'C11'
LEVEL = 'exploration'
RUN_TIMEOUT_S = 120.0
MIN_BUDGET = 150

TIERS = {
    'quick': {'runs': 5000, 'classes': 8, 'budget_s': 60},
    'thorough': {'runs': 120000, 'classes': 32, 'budget_s': 1100},
}

OPS = ['copy', 'copy', 'synth', 'opt', 'opt', 'edit_logic', 'edit_rename', 'edit_readport',
       'simulate', 'foreign', 'pass_failure']

COMPONENTS = {'real': ['transform.copy_block / clone_wire / _copy_net', 'MemBlock._make_copy',
                       'synthesize(update_working_block=False)',
                       'optimize(update_working_block=False)', 'pyrtl.Simulation',
                       'construction API for edits'],
              'stub': ['RefSim for behaviour', 'structural fingerprint']}


def gen_case(streams, tier):
    g = streams['gen']
    designs = []
    for _ in range(g.choice([1, 1, 2])):
        cfg = gen.make_cfg(nets=(2, 9), classes=g.choice([['bit', 'small'], ['small']]),
                           max_mul_width=4, mem_wide_aw=0.0, mem_aw=(1, 3), rom_aw_max=3,
                           regs=(0, 3), mems=(0, 2), roms=(0, 1), max_concat=16, trunc=False,
                           write_only_mem_prob=0.25, dup_mem_name_prob=0.3)
        script = gen.gen_script(g, cfg)
        designs.append({'script': script,
                        'cycles': gen.gen_inputs(streams['inputs'], script, 5)})
    f = streams['faults']
    ops = []
    for _ in range(f.randint(5, 15 if tier == 'thorough' else 10)):
        ops.append({'op': f.choice(OPS), 'target': f.randrange(64), 'wb': f.randrange(64),
                    'a': f.randrange(1 << 16), 'b': f.randrange(1 << 16)})
    return {'prop': ID, 'designs': designs, 'ops': ops, 'narrow': f.randrange(4) if f.random() < 0.3 else 0,
            'sched': world.gen_sched(streams, with_iter=False)}


class Entry(object):
    def __init__(self, block, tape, label):
        self.block = block
        self.tape = tape
        self.label = label
        self.snapshot()

    def snapshot(self):
        self.fp = transforms.fingerprint(self.block)
        nl, _live = transforms.block_netlist(self.block)
        self.outs = nl.outputs()
        self.rows, self.n, _ = transforms.ref_trace(nl, {}, self.tape, self.outs)

    def current_rows(self, outs=None):
        nl, _live = transforms.block_netlist(self.block)
        rows, n, _ = transforms.ref_trace(nl, {}, self.tape, outs or self.outs)
        return rows, n


def objects_of(block):
    ids = {}
    for w in block.wirevector_set:
        ids[id(w)] = 'wire ' + w.name
    for net in block.logic:
        if net.op in 'm@':
            ids[id(net.op_param[1])] = 'mem ' + net.op_param[1].name
    for m in block.memblock_by_name.values():
        ids[id(m)] = 'mem ' + m.name
    # the set of primitives a block admits is the block's own too: its owner narrows it in place
    ids[id(block.legal_ops)] = 'the legal_ops set'
    return ids


def run(case, res):
    import pyrtl
    sched = case['sched']
    world.setup_world(sched)
    pool = []
    for di, d in enumerate(case['designs']):
        b = world.build_dut(d['script'], sched)
        pool.append(Entry(b.block, d['cycles'], 'design%d' % di))
    unrelated = pyrtl.Block()
    fresh = [0]
    struct_pool = []        # results kept for their structure only (unmerged I/O): (block, fp, label)
    for di, e in enumerate(pool):
        if (case.get('narrow', 0) >> di) & 1:
            # the owner of this design narrowed its legal_ops to the primitives it uses
            e.block.legal_ops = set(n.op for n in e.block.logic)
            e.narrowed = True
            e.snapshot()
            res.probes.hit('legal_ops_narrowed')

    def newname(p):
        fresh[0] += 1
        return '%s_%d' % (p, fresh[0])

    for oi, op in enumerate(case['ops']):
        kind = op['op']
        tgt = pool[op['target'] % len(pool)]
        if kind.startswith('edit') and getattr(tgt, 'narrowed', False):
            continue        # the owner forbade the primitives an edit would add
        wbc = op['wb'] % (len(pool) + 1)
        wb = unrelated if wbc == len(pool) else pool[wbc].block
        pyrtl.set_working_block(wb, no_sanity_check=True)
        tags = ['op:' + kind]
        edit_target = None
        result = None
        res.log.log('session', kind, [tgt.label, wbc], None)
        res.faults.hit(kind)
        try:
            if kind == 'copy':
                result = pyrtl.copy_block(tgt.block, update_working_block=False)
            elif kind == 'synth':
                result = pyrtl.synthesize(update_working_block=False, block=tgt.block,
                                          merge_io_vectors=bool(op['b'] % 3))
            elif kind == 'opt':
                with transforms.quiet():
                    result = pyrtl.optimize(update_working_block=False, block=tgt.block)
            elif kind == 'simulate':
                sim = pyrtl.Simulation(tracer=pyrtl.SimulationTrace(block=tgt.block),
                                       block=tgt.block)
                for cyc in tgt.tape[:1 + op['a'] % 4]:
                    sim.step(dict(cyc))
            elif kind == 'foreign':
                world.foreign_activity(op['a'])
            elif kind == 'pass_failure':
                bad = pyrtl.Block()
                pyrtl.WireVector(3, 'dangling', block=bad)
                fpw = transforms.fingerprint(wb)
                refused = 0
                for fn in (lambda: pyrtl.copy_block(bad, update_working_block=False),
                           lambda: pyrtl.synthesize(update_working_block=False, block=bad),
                           lambda: pyrtl.optimize(update_working_block=False, block=bad)):
                    try:
                        with transforms.quiet():
                            fn()
                    except (pyrtl.PyrtlError, pyrtl.PyrtlInternalError):
                        refused += 1
                if refused != 3:
                    return Violation('pass_failure', 'malformed_block_accepted', {'refused': refused}, tags)
                # a block that passes the passes' entry sanity check and is refused later, from
                # the middle of the copy: a register whose reset value was overwritten with one
                # that does not fit (clone_wire re-validates it)
                bad2 = pyrtl.Block()
                with pyrtl.set_working_block(bad2, no_sanity_check=True):
                    bi = pyrtl.Input(3, 'bi')
                    br = pyrtl.Register(3, 'br')
                    bo = pyrtl.Output(3, 'bo')
                    br.next <<= bi
                    bo <<= br
                br.reset_value = 9 + (op['a'] % 5)
                late = 0
                for fn in (lambda: pyrtl.copy_block(bad2, update_working_block=False),
                           lambda: pyrtl.synthesize(update_working_block=False, block=bad2),
                           lambda: pyrtl.optimize(update_working_block=False, block=bad2)):
                    try:
                        with transforms.quiet():
                            fn()
                    except (pyrtl.PyrtlError, pyrtl.PyrtlInternalError):
                        late += 1
                    if pyrtl.working_block() is not wb:
                        return Violation('working_block', 'changed_by_refused_pass',
                                         {'refused_from': 'the middle of the copy'}, tags + ['late_refusal'])
                res.faults.hit('pass_refused_midway', late)
                if pyrtl.working_block() is not wb:
                    return Violation('working_block', 'changed_by_refused_pass', {}, tags)
                if transforms.fingerprint(wb) != fpw:
                    return Violation('fingerprint', 'working_block_changed_by_refused_pass', {}, tags)
            elif kind.startswith('edit'):
                edit_target = tgt
                pyrtl.set_working_block(tgt.block, no_sanity_check=True)
                wb = tgt.block
                _edit(kind, tgt, op, newname)
        except HarnessError:
            raise
        except Exception as e:
            return Violation('operation', 'raises', {'op': kind, 'index': oi, 'exc': repr(e)[:300]}, tags)
        # (2) working block
        if pyrtl.working_block() is not wb:
            return Violation('working_block', 'changed_by_non_updating_call',
                             {'op': kind, 'index': oi}, tags)
        # (3') at every moment: no two blocks of the pool share a wire or memory object (an edit
        # of a source made after a copy must not reach into the copy, nor the other way round)
        owner = {}
        for e in pool:
            for k, what in objects_of(e.block).items():
                if k in owner and owner[k] is not e:
                    return Violation('aliasing', 'two_blocks_share_an_object',
                                     {'op': kind, 'index': oi, 'object': what,
                                      'blocks': [owner[k].label, e.label]}, tags)
                owner[k] = e
        # (1) fingerprints
        for blk_s, fp_s, lab_s in struct_pool:
            if blk_s is not result and transforms.fingerprint(blk_s) != fp_s:
                return Violation('fingerprint', 'block_changed',
                                 {'op': kind, 'index': oi, 'block': lab_s, 'is_source': False}, tags)
        for e in pool:
            if e is edit_target:
                continue
            if transforms.fingerprint(e.block) != e.fp:
                return Violation('fingerprint', 'block_changed',
                                 {'op': kind, 'index': oi, 'block': e.label,
                                  'is_source': e is tgt}, tags)
        if edit_target is not None:
            s = transforms.sanity(edit_target.block)
            if s:
                raise HarnessError('edit made the block malformed: ' + s)
            rows, n = edit_target.current_rows()
            if transforms.compare_rows(edit_target.rows, rows, edit_target.outs, min(n, edit_target.n)):
                raise HarnessError('an additive edit changed existing outputs')
            edit_target.snapshot()
        if result is not None:
            # (3) identity disjointness
            src_objs = objects_of(tgt.block)
            for k, what in objects_of(result).items():
                if k in src_objs:
                    return Violation('aliasing', 'result_shares_object_with_source',
                                     {'op': kind, 'object': what}, tags)
            if result is tgt.block:
                return Violation('aliasing', 'returned_the_source_block', {'op': kind}, tags)
            s = transforms.sanity(result)
            if s:
                return Violation('result', 'not_well_formed', {'op': kind, 'exc': s}, tags)
            mm = getattr(result, 'mem_map', None)
            if kind in ('synth', 'copy') and mm:
                for src_m, new_m in mm.items():
                    if new_m.id != src_m.id or new_m.name != src_m.name or \
                            new_m.bitwidth != src_m.bitwidth or new_m.addrwidth != src_m.addrwidth:
                        return Violation('result', 'mem_map_pairs_memory_with_another_memory',
                                         {'op': kind, 'source': src_m.name, 'mapped_to': new_m.name}, tags)
            # the name index of the result must lead to the memories its nets use (that is how
            # a user obtains them for memory_value_map / inspect_mem)
            # (names need not be unique: the index then holds one of the namesakes in use)
            in_use = set(id(net.op_param[1]) for net in result.logic if net.op in 'm@')
            for net in result.logic:
                if net.op in 'm@':
                    m = net.op_param[1]
                    if id(result.memblock_by_name.get(m.name)) not in in_use:
                        return Violation('result', 'memblock_by_name_is_not_the_memory_in_use',
                                         {'op': kind, 'mem': m.name}, tags)
            if kind == 'synth' and not (op['b'] % 3) and \
                    any(w.bitwidth > 1 for w in tgt.block.wirevector_subset((pyrtl.Input, pyrtl.Output))):
                # unmerged I/O: the result has per-bit ports, so the source's tape does not drive
                # it (C03 owns that translation); it was checked structurally, it is not pooled
                res.probes.hit('unmerged_result_not_pooled')
                struct_pool.append((result, transforms.fingerprint(result), 'synth_unmerged#%d' % oi))
                continue
            ent = Entry(result, tgt.tape, '%s(%s)#%d' % (kind, tgt.label, oi))
            compare = True
            if kind == 'opt':
                ra = sorted(w.name for w in tgt.block.wirevector_subset(pyrtl.Register))
                rb = sorted(w.name for w in result.wirevector_subset(pyrtl.Register))
                if ra != rb:
                    compare = False      # C04's sanctioned constant-register difference
                    res.probes.hit('opt_eliminated_register')
            if sorted(ent.outs) != sorted(tgt.outs):
                return Violation('result', 'outputs_differ', {'op': kind}, tags)
            if compare:
                d = transforms.compare_rows(tgt.rows, ent.rows, tgt.outs, min(tgt.n, ent.n))
                if d:
                    c, name, a, bb = d
                    return Violation('behaviour', 'result_differs_from_source',
                                     {'op': kind, 'output': name, 'cycle': c, 'source': a,
                                      'result': bb}, tags)
            if kind == 'copy' and _copy_fp(transforms.fingerprint(result)) != _copy_fp(tgt.fp):
                return Violation('copy', 'copy_not_structurally_identical',
                                 {'diff': _fp_diff(_copy_fp(tgt.fp), _copy_fp(transforms.fingerprint(result)))}, tags)
            pool.append(ent)
            res.probes.hit('pool_grew')
        # (4) behaviour of every block from reset
        for e in pool:
            rows, n = e.current_rows()
            d = transforms.compare_rows(e.rows, rows, e.outs, min(n, e.n))
            if d:
                return Violation('behaviour', 'block_behaviour_changed',
                                 {'op': kind, 'index': oi, 'block': e.label}, tags)
            res.cycles += n
    res.shape = hashlib.sha1(repr([script_shape(d['script']) for d in case['designs']]).encode()).hexdigest()[:12]
    res.sched = hashlib.sha1(repr([(o['op'], o['target'] % 7, o['wb'] % 7) for o in case['ops']]).encode()).hexdigest()[:12]
    res.nontrivial = True
    return None


def _copy_fp(fp):
    # legal_ops (index 5) is a property of the Block object, not of the netlist; a copy of a
    # PostSynthBlock has the default set. The list of registered memory names (index 4) may
    # contain memories that have no port left (e.g. after dead-logic removal): copy_block
    # only copies memories some net refers to, and a port-less memory has no behaviour. The
    # memories in use are compared through index 2, and the name index of the result is
    # checked against them separately. Everything else must be identical.
    return fp[:4] + fp[6:7]     # (index 7, the memories' own port lists, is per object too)


def _fp_diff(a, b):
    out = []
    for i, (x, y) in enumerate(zip(a, b)):
        if x != y:
            xs = set(map(repr, x)) if isinstance(x, list) else {repr(x)}
            ys = set(map(repr, y)) if isinstance(y, list) else {repr(y)}
            out.append({'part': i, 'only_source': sorted(xs - ys)[:3], 'only_copy': sorted(ys - xs)[:3]})
    return out


def _edit(kind, ent, op, newname):
    import pyrtl
    blk = ent.block
    plain = sorted((w for w in blk.wirevector_set if not isinstance(w, pyrtl.Output)),
                   key=lambda w: w.name)
    if kind == 'edit_logic':
        a = plain[op['a'] % len(plain)]
        b = plain[op['b'] % len(plain)]
        o = pyrtl.Output(name=newname('eo'), block=blk)
        o <<= ~(a ^ b)
    elif kind == 'edit_rename':
        inner = [w for w in plain if type(w) is pyrtl.WireVector]
        if inner:
            inner[op['a'] % len(inner)].name = newname('ren')
    elif kind == 'edit_readport':
        mems = sorted(blk.memblock_by_name.values(), key=lambda m: m.name)
        srcs = [w for w in plain if isinstance(w, (pyrtl.Input, pyrtl.Register))]
        if mems and srcs:
            m = mems[op['a'] % len(mems)]
            a = srcs[op['b'] % len(srcs)]
            if a.bitwidth > m.addrwidth:
                a = a[:m.addrwidth]
            m.max_read_ports = None
            o = pyrtl.Output(name=newname('ep'), block=blk)
            o <<= m[a]


def candidates(case):
    for i in range(len(case['ops']) - 1, -1, -1):
        c = copy.deepcopy(case)
        del c['ops'][i]
        yield c
    if len(case['designs']) > 1:
        for i in range(len(case['designs'])):
            c = copy.deepcopy(case)
            del c['designs'][i]
            yield c
    if case['sched'].get('perm_seed') is not None:
        c = copy.deepcopy(case)
        c['sched'].update({'perm_seed': None, 'noise': 0})
        yield c
    for di, d in enumerate(case['designs']):
        for s in shrink.script_candidates(d['script']):
            c = copy.deepcopy(case)
            c['designs'][di]['script'] = s
            c['designs'][di]['cycles'] = shrink.remap_cycles(d['cycles'], s)
            s.pop('_memremap', None)
            yield c


def sample_of(case):
    return {'designs': [{'n_nets': len(d['script']['nets']),
                         'nets': [[n['op'], n['a'], n['d']] for n in d['script']['nets'][:6]]}
                        for d in case['designs']],
            'ops': [[o['op'], o['target'], o['wb']] for o in case['ops']]}
