"""C13 -- rtllib adders and multipliers are exact for all widths and values.

Every run picks ONE generator configuration (swarm style) and is one of two kinds.

(1) SIMULATED (kind 'seq'): multipliers.simple_mult / complex_mult (every legal `shifts`),
operand widths 1..12 mixed, built in an explicit Block with Inputs a, b, start and Outputs
prod, done, stepped cycle by cycle under pyrtl.Simulation (a quarter of the runs under
pyrtl.FastSimulation). A driver recorded in the case as a tape of [a, b, start] triples
    * lets the operands wander before the first pulse,
    * raises `start` at scheduler-chosen cycles (1..3 cycle long pulses),
    * FAULT 'abort_restart': pulses again while the previous operation is still in flight
      (done observed low in the pulse cycle), usually with new operands; between the aborted
      pulse and the next one the operands may also be changed (fault 'operand_change'),
    * holds the operands stable from the LAST pulse to the end of the tape, which is always
      long enough for that operation to finish (len(A)+1 cycles and a few more).
    A fraction of the small configurations (len(A)+len(B) <= 6) runs ALL operand pairs as
    consecutive operations in one tape.
  Oracle (a per-cycle monitor, valid for ANY tape, which is what makes shrinking trivial):
  an operation is the pair (A, B) presented in the last cycle in which start was high (cycle
  s). While start stays low and a, b still equal (A, B):  done must be high at some cycle
  <= s + len(A) + 1; from the first cycle > s in which done is high, done stays high and
  prod == A*B in every cycle. Nothing is judged in cycles in which start is high, nothing is
  judged for an operation whose operands changed after its pulse, nothing is judged before
  the first pulse (the docstrings promise nothing about the idle state; for a 1-bit operand
  simple_mult returns a combinational AND with a constant done, so "operands held stable" is
  essential and honoured). Bound: the simple_mult docstring says "worst case is len(A)
  cycles", the property says len(A)+1 cycles of start; the weaker len(A)+1 is used for both
  generators.

(2) STATELESS (kind 'comb', counted in res.stateless, one vector = one one-cycle
simulation): kogge_stone, ripple_add, cla_adder (la_unit_len 1..5) each with cin in {absent,
int 0, int 1, 1-bit wire}; carrysave_adder x final adder; fast_group_adder (2..6 wires) x
{wallace, dada} x final adder; tree_multiplier / signed_tree_multiplier x reducer x final
adder; fused_multiply_adder; generalized_fma (0..3 pairs, 0..3 add wires, >= 1 in total,
empty side passed as [] or -- as the docstring allows -- None). Widths 1..16 mixed.
Exhaustive over all input values when the total number of input bits is <= 10; otherwise
the cross product of the boundary values (0, 1, all-ones, msb only, all-ones minus 1; for the
signed multiplier also max-positive and most-negative+1) plus random vectors.
The observing simulator is pyrtl.Simulation or pyrtl.FastSimulation (recorded in the case;
large designs / long vector lists mostly go to FastSimulation, which steps for free).
Oracle: Python integers. Unsigned generators: the returned wire, read as an unsigned number,
equals the exact value (class `.truncated_result` when it only equals it modulo 2**len,
`.wrong_value` otherwise). signed_tree_multiplier: the returned wire read as two's complement
equals the signed product. A generator that raises on a configuration inside its documented
domain is reported as `.generator_raised` (the documented refusals -- signed multiplier with a
1-bit operand, shifts > len -- are never generated). `signed=True` of the FMA generators is
documented as "not supported" and is not exercised.
"""
import copy
import hashlib
import itertools

from .. import world
from ..common import Violation, HarnessError

ID = 'C13'
LEVEL = 'exploration'
RUN_TIMEOUT_S = 60.0
MIN_BUDGET = 220

TIERS = {
    'quick': {'runs': 20000, 'classes': 8, 'budget_s': 60},
    'thorough': {'runs': 400000, 'classes': 32, 'budget_s': 1100},
}

COMPONENTS = {
    'real': ['pyrtl.rtllib.adders: kogge_stone, ripple_add, cla_adder, carrysave_adder, '
             'fast_group_adder, wallace_reducer, dada_reducer',
             'pyrtl.rtllib.multipliers: simple_mult, complex_mult, tree_multiplier, '
             'signed_tree_multiplier, fused_multiply_adder, generalized_fma',
             'pyrtl.rtllib.libutils (match_bitwidth, _shifted_reg_next)',
             'pyrtl.Simulation / pyrtl.FastSimulation (to observe the results)'],
    'stub': ['Python integer arithmetic (the oracle)',
             'start/operand driver tape and per-cycle done/product monitor'],
}

ASSUMPTIONS = [
    'done bound: len(A)+1 cycles after the last cycle with start high (the property text; the '
    'simple_mult docstring "worst case is len(A) cycles" is read as the weaker bound)',
    'nothing is judged in a cycle in which start is high, before the first pulse, or for an '
    'operation whose operands changed after its pulse',
    'signed=True of fused_multiply_adder/generalized_fma is documented as unsupported: not run',
]

SEQ_GENS = ['simple_mult', 'complex_mult']
ADD2 = ['kogge_stone', 'ripple_add', 'cla_adder']
COMB_GENS = ['kogge_stone', 'ripple_add', 'cla_adder', 'carrysave_adder', 'fast_group_adder',
             'tree_multiplier', 'signed_tree_multiplier', 'fused_multiply_adder',
             'generalized_fma']
FINALS = ['kogge_stone', 'ripple_add', 'cla_adder']
REDUCERS = ['wallace_reducer', 'dada_reducer']

EXPECTED_PROBES = (['gen:' + g for g in SEQ_GENS + COMB_GENS]
                   + ['seq:completed_op', 'seq:trivial_path', 'seq:exhaustive_pairs',
                      'comb:exhaustive', 'comb:sampled', 'sim:fast', 'sim:sim'])


# ---------------------------------------------------------------------------------------
# generation
# ---------------------------------------------------------------------------------------

def _mask(w):
    return (1 << w) - 1


def boundary(w, signed=False):
    m = _mask(w)
    vals = [0, 1 & m, m, 1 << (w - 1), max(m - 1, 0)]
    if signed:
        vals += [(1 << (w - 1)) - 1, ((1 << (w - 1)) + 1) & m]
    out = []
    for v in vals:
        if v not in out:
            out.append(v)
    return out


def bval(rng, w, pb=0.5):
    if rng.random() < pb:
        return rng.choice(boundary(w))
    return rng.getrandbits(w)


def pick_width(g, small, lo=1, hi=16):
    if small:
        return max(lo, min(hi, g.choice([1, 1, 2, 2, 3, 4, 5])))
    return g.randint(lo, hi)


def gen_case(streams, tier):
    g = streams['gen']
    if g.random() < 0.45:
        case = gen_seq(streams)
    else:
        case = gen_comb(streams)
    case['prop'] = ID
    case['sched'] = world.gen_sched(streams, with_iter=False, noise=False)
    return case


# ---- sequential ---------------------------------------------------------------------------

def gen_seq(streams):
    g = streams['gen']
    sch = streams['sched']
    gen = g.choice(['simple_mult', 'complex_mult', 'complex_mult'])
    small = g.random() < 0.4
    aw = pick_width(g, small, 1, 12)
    bw = pick_width(g, small, 1, 12)
    shifts = g.randint(1, min(aw, bw)) if gen == 'complex_mult' else None
    mode = 'random'
    if aw + bw <= 6 and g.random() < 0.5:
        mode = 'pairs'
    case = {'kind': 'seq', 'gen': gen, 'aw': aw, 'bw': bw, 'shifts': shifts, 'mode': mode,
            'sim': 'fast' if sch.random() < 0.25 else 'sim'}
    case['cycles'] = gen_tape(streams, aw, bw, shifts or 1, mode)
    return case


def gen_tape(streams, aw, bw, shifts, mode):
    inp = streams['inputs']
    sch = streams['sched']
    flt = streams['faults']
    cyc = []
    for _ in range(sch.randint(0, 3)):
        cyc.append([bval(inp, aw), bval(inp, bw), 0])
    if mode == 'pairs':
        ops = [(a, b) for a in range(1 << aw) for b in range(1 << bw)]
        inp.shuffle(ops)
        p_abort = 0.12
    else:
        ops = []
        for _ in range(sch.choice([1, 1, 2, 3, 4])):
            if ops and inp.random() < 0.15:
                ops.append(ops[-1])       # re-pulse with the same operands
            else:
                ops.append((bval(inp, aw, 0.55), bval(inp, bw, 0.45)))
        p_abort = 0.55
    for k, (A, B) in enumerate(ops):
        last = (k == len(ops) - 1)
        plen = 1 if sch.random() < 0.8 else sch.randint(2, 3)
        for _ in range(plen):
            cyc.append([A, B, 1])
        if last:
            for _ in range(aw + 1 + sch.randint(1, 3)):
                cyc.append([A, B, 0])
            break
        if flt.random() < p_abort:
            steps = -(-A.bit_length() // shifts)
            gap = flt.randrange(0, max(1, steps))      # strictly before completion
            wander = flt.random() < 0.4
        else:
            gap = aw + 1 + sch.randint(0, 2)
            wander = flt.random() < 0.12
        at = flt.randrange(0, gap) if (wander and gap) else None
        a, b = A, B
        for i in range(gap):
            if at is not None and i >= at and (i == at or flt.random() < 0.3):
                a, b = bval(inp, aw), bval(inp, bw)
            cyc.append([a, b, 0])
    return cyc


# ---- combinational -----------------------------------------------------------------------

def gen_comb(streams):
    g = streams['gen']
    gen = g.choice(COMB_GENS)
    small = g.random() < 0.35
    cfg = {}
    signed = False
    if gen in ADD2:
        widths = [pick_width(g, small), pick_width(g, small)]
        cfg['cin'] = g.choice(['none', 'none', 'c0', 'c1', 'wire', 'wire'])
        if gen == 'cla_adder':
            cfg['la_unit_len'] = g.choice([None, 1, 2, 3, 4, 5])
        if g.random() < 0.15:
            cfg['same'] = True          # the same wire as both operands: x + x (+ cin)
            widths = widths[:1]
    elif gen == 'carrysave_adder':
        widths = [pick_width(g, small) for _ in range(3)]
        cfg['final'] = g.choice([None] + FINALS)
    elif gen == 'fast_group_adder':
        n = g.choice([2, 2, 3, 3, 4, 5, 6])
        widths = [pick_width(g, small) for _ in range(n)]
        cfg['reducer'] = g.choice([None] + REDUCERS)
        cfg['final'] = g.choice([None] + FINALS)
        if g.random() < 0.3:
            # the reducer called directly on hand-built bit columns, as its docstring invites;
            # with a fault: one column holds an element that is not a 1-bit WireVector, the call
            # is refused with PyrtlError, the caller takes the element out and calls again with
            # the same column lists
            cfg['reducer'] = cfg['reducer'] or g.choice(REDUCERS)
            cfg['direct'] = {'bad_col': g.randrange(16) if g.random() < 0.6 else None,
                             'bad_kind': g.choice(['wide', 'int']),
                             # operand i enters the columns at bit shifts[i] (ragged columns,
                             # some of them empty or single below fuller ones)
                             'shifts': [g.choice([0, 0, 1, 2, 3]) if g.random() < 0.6 else 0
                                        for _ in widths]}
    elif gen in ('tree_multiplier', 'signed_tree_multiplier'):
        signed = gen == 'signed_tree_multiplier'
        lo = 2 if signed else 1
        widths = [pick_width(g, small, lo), pick_width(g, small, lo)]
        cfg['reducer'] = g.choice([None] + REDUCERS)
        cfg['final'] = g.choice([None] + FINALS)
        if not signed and g.random() < 0.12:
            # one enable bit gates two products in a row: en * narrow, then en * wide
            wn = pick_width(g, True, 1, 6)
            widths = [1, wn, wn + g.choice([1, 2, 4, 7])]
            cfg['chain'] = g.choice(['first', 'second'])       # which operand position en takes
        elif g.random() < 0.15:
            cfg['square'] = True        # the same wire as both operands: x * x
            widths = widths[:1]
        elif g.random() < 0.2:
            # one operand is a Const (multiplication by a fixed coefficient)
            ki = g.randrange(2)
            cfg['const_operand'] = {'idx': ki, 'val': g.getrandbits(widths[ki])}
            if signed and widths[ki] >= 2 and g.random() < 0.3:
                cfg['const_operand']['val'] = 1 << (widths[ki] - 1)      # the most negative one
    elif gen == 'fused_multiply_adder':
        widths = [pick_width(g, small), pick_width(g, small), pick_width(g, small, 1, 16)]
        cfg['reducer'] = g.choice([None] + REDUCERS)
        cfg['final'] = g.choice([None] + FINALS)
    else:
        npairs = g.choice([0, 1, 1, 2, 2, 3])
        nadds = g.choice([0, 1, 1, 2, 3])
        if npairs + nadds == 0:
            npairs = 1
        hi = 16 if npairs <= 1 else (11 if npairs == 2 else 9)
        widths = [pick_width(g, small, 1, hi) for _ in range(2 * npairs)]
        widths += [pick_width(g, small) for _ in range(nadds)]
        cfg['npairs'] = npairs
        cfg['nadds'] = nadds
        cfg['empty_as_none'] = g.random() < 0.3
        cfg['reducer'] = g.choice([None] + REDUCERS)
        cfg['final'] = g.choice([None] + FINALS)
    if g.random() < 0.12:
        # all operands of one width (all-1-bit configurations are otherwise very rare)
        w = g.choice([1, 1, 2, widths[0]])
        widths = [max(2, w) if signed else w] * len(widths)
    case = {'kind': 'comb', 'gen': gen, 'widths': widths, 'cfg': cfg,
            'under_condition': g.random() < 0.12}
    if cfg.get('chain'):
        case['twin'] = dict(cfg, chain_unit=2)        # the second product of the chain
    elif g.random() < 0.25:
        # a second unit of the same generator on the very same operand wires, in the same
        # Block (e.g. a Wallace and a Dada multiplier side by side): each must be exact
        twin = dict(cfg)
        if 'cin' in twin:
            # e.g. the two speculative sums of a carry-select stage: a + b and a + b + 1
            twin['cin'] = g.choice([c for c in ['none', 'c0', 'c1', 'wire'] if c != cfg['cin']])
        if 'reducer' in twin and g.random() < 0.7:
            twin['reducer'] = g.choice([r for r in [None] + REDUCERS if r != cfg['reducer']])
        if 'final' in twin and g.random() < 0.3:
            twin['final'] = g.choice([None] + FINALS)
        case['twin'] = twin
    vw = vec_widths(case)
    total = sum(vw)
    sch = streams['sched']
    cost = est_cost(case)
    # pyrtl.Simulation costs ~1.5 us per net and step, FastSimulation compiles for ~2x the
    # construction time of Simulation and then steps for free: big designs and long vector
    # lists mostly go to FastSimulation, and Simulation gets a shorter vector list
    if total <= 10:
        pfast = 0.8 if (1 << total) * cost > 20000 else 0.25
    else:
        pfast = 0.75 if cost > 300 else 0.3
    case['sim'] = 'fast' if sch.random() < pfast else 'sim'
    if total <= 10:
        case['exhaustive'] = True
        case['vectors'] = None
    else:
        cap = 70 if case['sim'] == 'fast' else max(8, min(70, 20000 // cost))
        case['exhaustive'] = False
        case['vectors'] = gen_vectors(streams['inputs'], vw, signed, cap)
    return case


def vec_widths(case):
    vw = list(case['widths'])
    if case['cfg'].get('cin') == 'wire' or (case.get('twin') or {}).get('cin') == 'wire':
        vw.append(1)
    return vw


def est_cost(case):
    gen = case['gen']
    w = case['widths']
    if gen in ADD2:
        return 14 * max(w) + 10
    if gen == 'carrysave_adder':
        return 20 * max(w) + 10
    if gen == 'fast_group_adder':
        return 10 * sum(w) + 20
    if gen in ('tree_multiplier', 'signed_tree_multiplier', 'fused_multiply_adder'):
        return 9 * max(w) * w[min(1, len(w) - 1)] + 12 * sum(w) + 20
    np_ = case['cfg']['npairs']
    c = 20
    for i in range(np_):
        c += 9 * w[2 * i] * w[2 * i + 1]
    return c + 12 * sum(w)


def gen_vectors(rng, vw, signed, cap):
    bsets = [boundary(w, signed) for w in vw]
    ncross = 1
    for s in bsets:
        ncross *= len(s)
    vecs = []
    if ncross <= cap:
        vecs = [list(v) for v in itertools.product(*bsets)]
    else:
        for _ in range(cap):
            vecs.append([rng.choice(s) for s in bsets])
    for _ in range(max(8, cap // 2)):
        vecs.append([bval(rng, w, 0.3) for w in vw])
    return vecs


# ---------------------------------------------------------------------------------------
# the world
# ---------------------------------------------------------------------------------------

def cfg_tags(case):
    tags = ['gen:' + case['gen'], 'sim:' + case.get('sim', 'sim')]
    if case['kind'] == 'seq':
        if case['shifts'] is not None:
            tags.append('shifts:%d' % case['shifts'])
        if case['gen'] == 'simple_mult' and (case['aw'] == 1 or case['bw'] == 1):
            tags.append('trivial_path')
        if case['aw'] == 1 or case['bw'] == 1:
            tags.append('one_bit_operand')
        return tags
    cfg = case['cfg']
    for k in ('cin', 'la_unit_len', 'final', 'reducer', 'npairs', 'nadds'):
        if k in cfg:
            tags.append('%s:%s' % (k, 'default' if cfg[k] is None else cfg[k]))
    if cfg.get('empty_as_none') and (cfg.get('npairs') == 0 or cfg.get('nadds') == 0):
        tags.append('args:none')
    if min(case['widths']) == 1:
        tags.append('one_bit_operand')
    if len(set(case['widths'])) > 1:
        tags.append('mixed_widths')
    return tags


def make_sim(pyrtl, kind, blk):
    tr = pyrtl.SimulationTrace(block=blk)
    if kind == 'fast':
        return pyrtl.FastSimulation(tracer=tr, block=blk)
    return pyrtl.Simulation(tracer=tr, block=blk)


def run(case, res):
    world.setup_world(case['sched'])
    res.probes.hit('gen:' + case['gen'])
    res.probes.hit('sim:' + case.get('sim', 'sim'))
    if case['kind'] == 'seq':
        return run_seq(case, res)
    if case['kind'] == 'comb':
        return run_comb(case, res)
    raise HarnessError('unknown case kind %r' % (case.get('kind'),))


def _digest(obj):
    return hashlib.sha1(repr(obj).encode()).hexdigest()[:12]


# ---- sequential ---------------------------------------------------------------------------

def run_seq(case, res):
    import pyrtl
    from pyrtl.rtllib import multipliers
    gen, aw, bw, shifts = case['gen'], case['aw'], case['bw'], case['shifts']
    tags = cfg_tags(case)
    if gen not in SEQ_GENS or aw < 1 or bw < 1:
        raise HarnessError('bad seq case')
    if gen == 'complex_mult' and not (1 <= shifts <= min(aw, bw)):
        raise HarnessError('illegal shifts generated')
    cycles = case['cycles']
    for c in cycles:
        if not (0 <= c[0] <= _mask(aw) and 0 <= c[1] <= _mask(bw) and c[2] in (0, 1)):
            raise HarnessError('tape value out of range')
    blk = pyrtl.Block()
    try:
        with pyrtl.set_working_block(blk, no_sanity_check=True):
            a = pyrtl.Input(aw, 'a')
            b = pyrtl.Input(bw, 'b')
            st = pyrtl.Input(1, 'start')
            if gen == 'simple_mult':
                r, d = multipliers.simple_mult(a, b, st)
            else:
                r, d = multipliers.complex_mult(a, b, shifts, st)
            rw = len(r)
            po = pyrtl.Output(rw, 'prod')
            po <<= r
            do = pyrtl.Output(1, 'done')
            do <<= d
        sim = make_sim(pyrtl, case['sim'], blk)
    except HarnessError:
        raise
    except Exception as e:
        return Violation('build', gen + '.generator_raised',
                         {'exc': repr(e)[:300], 'aw': aw, 'bw': bw, 'shifts': shifts},
                         tags + ['exc:' + type(e).__name__])
    res.log.log('seq', 'built', [gen, aw, bw, shifts, case['sim']], rw)
    if gen == 'simple_mult' and (aw == 1 or bw == 1):
        res.probes.hit('seq:trivial_path')
    if case.get('mode') == 'pairs':
        res.probes.hit('seq:exhaustive_pairs')
    bound = aw + 1
    op = None
    pulses = []
    for t, (av, bv, sv) in enumerate(cycles):
        sim.step({'a': av, 'b': bv, 'start': sv})
        res.cycles += 1
        prod = sim.inspect('prod')
        done = sim.inspect('done')
        res.log.log('seq', 'cycle', [av, bv, sv], [prod, done])
        if op is not None and op['stable'] and (av, bv) != (op['A'], op['B']):
            op['stable'] = False
            if not sv:
                res.faults.hit('operand_change')      # changed without a new pulse
        if op is not None and op['stable'] and not sv and t > op['s']:
            exp = op['A'] * op['B']
            vt = tags + (['after_abort'] if op['after_abort'] else [])
            det = {'A': op['A'], 'B': op['B'], 'aw': aw, 'bw': bw, 'shifts': shifts,
                   'start_cycle': op['s'], 'cycle': t, 'prod': prod, 'expected': exp,
                   'done': done, 'prod_width': rw}
            if done:
                res.nontrivial = True
                if op['done_at'] is None:
                    op['done_at'] = t
                    res.probes.hit('seq:completed_op')
                    if op['after_abort']:
                        res.probes.hit('seq:completed_after_abort')
                    if prod != exp:
                        return Violation('seq_protocol', gen + '.done_with_wrong_product', det, vt)
                elif prod != exp:
                    return Violation('seq_protocol', gen + '.product_not_held', det, vt)
            else:
                if op['done_at'] is not None:
                    res.nontrivial = True
                    det['done_at'] = op['done_at']
                    return Violation('seq_protocol', gen + '.done_dropped', det, vt)
                if t - op['s'] >= bound:
                    res.nontrivial = True
                    det['bound'] = bound
                    return Violation('seq_protocol', gen + '.done_late', det, vt)
        if sv:
            aborted = False
            if op is not None and not done:
                aborted = True
                res.faults.hit('abort_restart')
            after = aborted or (op is not None and op['after_abort']
                                and op['done_at'] is None)
            op = {'A': av, 'B': bv, 's': t, 'stable': True, 'done_at': None,
                  'after_abort': after}
            pulses.append(t)
    res.shape = _digest([gen, aw, bw, shifts])
    res.sched = _digest([case['sim'], pulses, len(cycles)])
    return None


# ---- combinational -----------------------------------------------------------------------

def _to_signed(v, w):
    return v - (1 << w) if v >> (w - 1) else v


def expected_value(case, vec):
    gen = case['gen']
    cfg = case['cfg']
    ws = case['widths']
    n = len(ws)
    x = vec[:n]
    if gen in ADD2:
        cin = {'none': 0, 'c0': 0, 'c1': 1}.get(cfg['cin'])
        if cin is None:
            cin = vec[n]
        return x[0] + x[-1] + cin
    if gen == 'fast_group_adder' and cfg.get('direct') and cfg['direct'].get('shifts'):
        return sum(v << s for v, s in zip(x, cfg['direct']['shifts']))
    if gen in ('carrysave_adder', 'fast_group_adder'):
        return sum(x)
    if gen == 'tree_multiplier' and cfg.get('chain'):
        return x[0] * x[2] if cfg.get('chain_unit') == 2 else x[0] * x[1]
    if gen == 'tree_multiplier':
        return x[0] * x[-1 if cfg.get('square') else 1]
    if gen == 'signed_tree_multiplier':
        if cfg.get('square'):
            return _to_signed(x[0], ws[0]) ** 2
        return _to_signed(x[0], ws[0]) * _to_signed(x[1], ws[1])
    if gen == 'fused_multiply_adder':
        return x[0] * x[1] + x[2]
    if gen == 'generalized_fma':
        np_ = cfg['npairs']
        tot = 0
        for i in range(np_):
            tot += x[2 * i] * x[2 * i + 1]
        return tot + sum(x[2 * np_:])
    raise HarnessError('expected_value: unknown generator')


def build_comb(pyrtl, case, blk, cfg=None, shared=None):
    """shared: {'xs': operand wires, 'cin': carry-in wire} of an earlier unit in this Block"""
    from pyrtl.rtllib import adders, multipliers
    gen = case['gen']
    cfg = case['cfg'] if cfg is None else cfg
    ws = case['widths']
    if shared is not None and shared.get('xs'):
        xs = shared['xs']
    else:
        ko = case['cfg'].get('const_operand')
        xs = [pyrtl.Const(ko['val'] & ((1 << w) - 1), bitwidth=w) if ko and ko['idx'] == i
              else pyrtl.Input(w, 'x%d' % i) for i, w in enumerate(ws)]
        if shared is not None:
            shared['xs'] = xs
    kw = {}
    if cfg.get('final') is not None:
        kw['final'] = getattr(adders, cfg['final'])
    if cfg.get('reducer') is not None:
        kw['reducer'] = getattr(adders, cfg['reducer'])
    if gen in ADD2:
        akw = {}
        if cfg['cin'] == 'c0':
            akw['cin'] = 0
        elif cfg['cin'] == 'c1':
            akw['cin'] = 1
        elif cfg['cin'] == 'wire':
            if shared is not None and shared.get('cin') is not None:
                akw['cin'] = shared['cin']
            else:
                akw['cin'] = pyrtl.Input(1, 'cin')
                if shared is not None:
                    shared['cin'] = akw['cin']
        if cfg.get('la_unit_len') is not None:
            akw['la_unit_len'] = cfg['la_unit_len']
        return getattr(adders, gen)(xs[0], xs[-1], **akw)
    if gen == 'carrysave_adder':
        if 'final' in kw:
            return adders.carrysave_adder(xs[0], xs[1], xs[2], final_adder=kw['final'])
        return adders.carrysave_adder(xs[0], xs[1], xs[2])
    if gen == 'fast_group_adder' and cfg.get('direct'):
        shifts = cfg['direct'].get('shifts') or [0] * len(ws)
        cols = [[] for _ in range(max(w + s for w, s in zip(ws, shifts)))]
        for x, s in zip(xs, shifts):
            for i in range(len(x)):
                cols[i + s].append(x[i])
        rb = sum(((1 << w) - 1) << s for w, s in zip(ws, shifts)).bit_length()
        red = kw.get('reducer') or adders.wallace_reducer
        fkw = {'final_adder': kw['final']} if 'final' in kw else {}
        d = cfg['direct']
        if d.get('bad_col') is not None:
            k = d['bad_col'] % len(cols)
            wide = [x for x in xs if len(x) >= 2]
            bad = wide[0] if (d['bad_kind'] == 'wide' and wide) else 1
            cols[k].append(bad)
            try:
                red(cols, rb, **fkw)
            except pyrtl.PyrtlError:
                if shared is not None:
                    shared['reducer_rejected'] = shared.get('reducer_rejected', 0) + 1
            else:
                from ..common import Inconclusive
                raise Inconclusive('reducer accepted an element that is not a 1-bit WireVector')
            for i, e in enumerate(cols[k]):
                if e is bad:
                    del cols[k][i]
                    break
        return red(cols, rb, **fkw)
    if gen == 'fast_group_adder':
        fkw = {}
        if 'reducer' in kw:
            fkw['reducer'] = kw['reducer']
        if 'final' in kw:
            fkw['final_adder'] = kw['final']
        return adders.fast_group_adder(list(xs), **fkw)
    mkw = {}
    if 'reducer' in kw:
        mkw['reducer'] = kw['reducer']
    if 'final' in kw:
        mkw['adder_func'] = kw['final']
    if gen == 'tree_multiplier' and cfg.get('chain'):
        other = xs[2] if cfg.get('chain_unit') == 2 else xs[1]
        args = (xs[0], other) if cfg['chain'] == 'first' else (other, xs[0])
        return multipliers.tree_multiplier(*args, **mkw)
    if gen == 'tree_multiplier':
        return multipliers.tree_multiplier(xs[0], xs[-1], **mkw)
    if gen == 'signed_tree_multiplier':
        return multipliers.signed_tree_multiplier(xs[0], xs[-1], **mkw)
    if gen == 'fused_multiply_adder':
        return multipliers.fused_multiply_adder(xs[0], xs[1], xs[2], **mkw)
    if gen == 'generalized_fma':
        np_, na = cfg['npairs'], cfg['nadds']
        if shared is not None and shared.get('fma_lists') is not None:
            pairs, adds = shared['fma_lists']      # the caller's own lists, handed to both units
        else:
            pairs = [(xs[2 * i], xs[2 * i + 1]) for i in range(np_)]
            adds = list(xs[2 * np_:])
            if shared is not None:
                shared['fma_lists'] = (pairs, adds)
        if len(adds) != na:
            raise HarnessError('generalized_fma operand layout')
        if cfg.get('empty_as_none'):
            pairs = pairs or None
            adds = adds or None
        return multipliers.generalized_fma(pairs, adds, **mkw)
    raise HarnessError('build_comb: unknown generator')


def all_vectors(vw):
    return [list(v) for v in itertools.product(*[range(1 << w) for w in vw])]


def run_comb(case, res):
    import pyrtl
    gen = case['gen']
    cfg = case['cfg']
    ws = case['widths']
    if gen not in COMB_GENS:
        raise HarnessError('bad comb case')
    if gen == 'signed_tree_multiplier' and min(ws) < 2:
        raise HarnessError('signed multiplier with 1-bit operand generated')
    tags = cfg_tags(case)
    vw = vec_widths(case)
    if case.get('exhaustive'):
        if sum(vw) > 12:
            raise HarnessError('exhaustive case too large')
        vectors = all_vectors(vw)
        res.probes.hit('comb:exhaustive')
    else:
        vectors = case['vectors']
        res.probes.hit('comb:sampled')
    names = ['x%d' % i for i in range(len(ws))] + \
        (['cin'] if cfg.get('cin') == 'wire' or (case.get('twin') or {}).get('cin') == 'wire' else [])
    blk = pyrtl.Block()
    try:
        with pyrtl.set_working_block(blk, no_sanity_check=True):
            shared = {}
            if case.get('under_condition'):
                # the generator is instantiated inside a branch of an open conditional_assignment
                # block of the caller's (a generator that is refused there is not judged; one
                # that returns a wire must have built an exact unit)
                cond = pyrtl.Input(1, 'cond')
                try:
                    with pyrtl.conditional_assignment:
                        with cond:
                            r = build_comb(pyrtl, case, blk, shared=shared)
                except pyrtl.PyrtlError:
                    from ..common import Inconclusive
                    raise Inconclusive('generator refused inside a conditional_assignment block')
                res.faults.hit('generator_instantiated_under_condition')
                keep = pyrtl.Output(1, 'cond_o')
                keep <<= cond
            else:
                r = build_comb(pyrtl, case, blk, shared=shared)
            rw = len(r)
            y = pyrtl.Output(rw, 'y')
            y <<= r
            rw2 = None
            if case.get('twin') is not None:
                r2 = build_comb(pyrtl, case, blk, cfg=case['twin'], shared=shared)
                rw2 = len(r2)
                y2 = pyrtl.Output(rw2, 'y2')
                y2 <<= r2
                res.probes.hit('comb:twin_unit')
            if shared.get('reducer_rejected'):
                res.faults.hit('reducer_call_refused_then_retried', shared['reducer_rejected'])
        sim = make_sim(pyrtl, case['sim'], blk)
    except HarnessError:
        raise
    except Exception as e:
        from ..common import Inconclusive
        if isinstance(e, Inconclusive):
            raise
        res.nontrivial = True
        res.shape = _digest([gen, sorted(cfg.items(), key=lambda kv: kv[0]), ws])
        return Violation('build', gen + '.generator_raised',
                         {'exc': repr(e)[:300], 'widths': ws, 'cfg': cfg},
                         tags + ['exc:' + type(e).__name__])
    res.log.log('comb', 'built', [gen, ws, sorted(cfg.items(), key=lambda kv: kv[0])], rw)
    signed = gen == 'signed_tree_multiplier'
    for vi, vec in enumerate(vectors):
        if len(vec) != len(vw) or any(not (0 <= v <= _mask(w)) for v, w in zip(vec, vw)):
            raise HarnessError('vector does not fit the operand widths')
        ko = cfg.get('const_operand')
        if ko:
            vec = list(vec)
            vec[ko['idx']] = ko['val'] & ((1 << ws[ko['idx']]) - 1)     # a Const, not an Input
        step_ins = {n: v for n, v in zip(names, vec) if not (ko and n == 'x%d' % ko['idx'])}
        if case.get('under_condition'):
            step_ins['cond'] = vi % 2
        sim.step(step_ins)
        got = sim.inspect('y')
        res.stateless += 1
        res.log.log('comb', 'vec', vec, got)
        exp = expected_value(case, vec)
        val = _to_signed(got, rw) if signed else got
        if val == exp and rw2 is not None:
            got2 = sim.inspect('y2')
            val2 = _to_signed(got2, rw2) if signed else got2
            exp2 = expected_value(dict(case, cfg=case['twin']), vec)
            if val2 != exp2:
                res.nontrivial = True
                return Violation('comb_exact', gen + '.second_unit_on_same_operands_wrong',
                                 {'widths': ws, 'cfg': cfg, 'twin_cfg': case['twin'], 'vector': vec,
                                  'expected': exp2, 'got': val2, 'first_unit': val},
                                 tags + ['twin'])
        if val != exp:
            res.nontrivial = True
            vt = list(tags)
            det = {'widths': ws, 'cfg': cfg, 'vector': vec, 'expected': exp, 'got': val,
                   'raw': got, 'result_width': rw, 'vector_index': vi}
            if signed:
                mn = [i for i in range(len(ws)) if vec[i] == 1 << (ws[i] - 1)]
                if mn:
                    vt.append('most_negative_operand')
                if any(vec[i] >> (ws[i] - 1) for i in range(len(ws))):
                    vt.append('negative_operand')
                return Violation('comb_exact', gen + '.wrong_value', det, vt)
            if cfg.get('cin') in ('c1', 'wire'):
                vt.append('cin_value:%d' % (exp - vec[0] - vec[1]))
            if exp >> rw and (exp & _mask(rw)) == got:
                det['bits_needed'] = exp.bit_length()
                return Violation('comb_exact', gen + '.truncated_result', det, vt)
            return Violation('comb_exact', gen + '.wrong_value', det, vt)
    res.nontrivial = True
    res.shape = _digest([gen, sorted(cfg.items(), key=lambda kv: kv[0]), ws, rw])
    res.sched = _digest(['comb', case['sim'], bool(case.get('exhaustive'))])
    return None


# ---------------------------------------------------------------------------------------
# shrinking
# ---------------------------------------------------------------------------------------

def _chunks_removed(seq, max_singles=24):
    n = len(seq)
    size = n // 2
    while size >= 1:
        if size == 1 and n > max_singles:
            break
        for i in range(0, n, size):
            out = seq[:i] + seq[i + size:]
            if out:
                yield out
        size //= 2


def _simpler_values(v):
    out = []
    for nv in (0, 1, v >> 1, v & (v - 1)):
        if nv < v and nv not in out:
            out.append(nv)
    return out


def seq_candidates(case):
    cyc = case['cycles']
    # 1. drop chunks of the tape (the monitor is valid for any tape)
    for out in _chunks_removed(cyc, 40):
        c = copy.deepcopy(case)
        c['cycles'] = copy.deepcopy(out)
        c['mode'] = 'random'
        yield c
    # 2. turn single pulses off
    for i, x in enumerate(cyc):
        if x[2]:
            c = copy.deepcopy(case)
            c['cycles'][i][2] = 0
            yield c
    if case['sim'] != 'sim':
        c = copy.deepcopy(case)
        c['sim'] = 'sim'
        yield c
    if case['shifts'] not in (None, 1):
        c = copy.deepcopy(case)
        c['shifts'] = 1
        yield c
    # 3. narrower operands (values masked)
    for key, col in (('aw', 0), ('bw', 1)):
        w = case[key]
        if w > 1:
            c = copy.deepcopy(case)
            c[key] = w - 1
            for x in c['cycles']:
                x[col] &= _mask(w - 1)
            if c['shifts'] is not None:
                c['shifts'] = min(c['shifts'], c['aw'], c['bw'])
            yield c
    # 4. simpler operand values (a value is replaced wherever it occurs, which keeps the
    #    held-stable stretches stable)
    for col in (0, 1):
        seen = []
        for x in cyc:
            if x[col] not in seen:
                seen.append(x[col])
        for v in seen:
            for nv in _simpler_values(v):
                c = copy.deepcopy(case)
                for x in c['cycles']:
                    if x[col] == v:
                        x[col] = nv
                yield c


def _drop_operand(case, idx):
    c = copy.deepcopy(case)
    del c['widths'][idx]
    if c['vectors'] is not None:
        for v in c['vectors']:
            del v[idx]
    return c


def comb_candidates(case):
    vw = vec_widths(case)
    if case.get('twin') is not None:
        c = copy.deepcopy(case)
        c['twin'] = None
        yield c
    if case.get('exhaustive'):
        c = copy.deepcopy(case)
        c['exhaustive'] = False
        c['vectors'] = all_vectors(vw)
        yield c
        return
    vecs = case['vectors']
    if len(vecs) > 1:
        for out in _chunks_removed(vecs, 16):
            c = copy.deepcopy(case)
            c['vectors'] = copy.deepcopy(out)
            yield c
    if case['sim'] != 'sim':
        c = copy.deepcopy(case)
        c['sim'] = 'sim'
        yield c
    gen = case['gen']
    cfg = case['cfg']
    # fewer operands
    if gen == 'fast_group_adder' and len(case['widths']) > 2:
        for i in range(len(case['widths'])):
            yield _drop_operand(case, i)
    if gen == 'generalized_fma':
        np_, na = cfg['npairs'], cfg['nadds']
        if np_ + na > 1:
            for i in range(np_):
                c = _drop_operand(_drop_operand(case, 2 * i + 1), 2 * i)
                c['cfg']['npairs'] = np_ - 1
                yield c
            for i in range(na):
                c = _drop_operand(case, 2 * np_ + i)
                c['cfg']['nadds'] = na - 1
                yield c
        if cfg.get('empty_as_none'):
            c = copy.deepcopy(case)
            c['cfg']['empty_as_none'] = False
            yield c
    # default parameters
    for k in ('final', 'reducer', 'la_unit_len'):
        if cfg.get(k) is not None:
            c = copy.deepcopy(case)
            c['cfg'][k] = None
            yield c
    if cfg.get('cin') == 'wire':
        for const in ('c1', 'c0'):
            want = 1 if const == 'c1' else 0
            if all(v[-1] == want for v in vecs):
                c = copy.deepcopy(case)
                c['cfg']['cin'] = const
                for v in c['vectors']:
                    del v[-1]
                yield c
    elif cfg.get('cin') == 'c0':
        c = copy.deepcopy(case)
        c['cfg']['cin'] = 'none'
        yield c
    # narrower operands (values masked)
    lo = 2 if gen == 'signed_tree_multiplier' else 1
    for i, w in enumerate(case['widths']):
        if w > lo:
            c = copy.deepcopy(case)
            c['widths'][i] = w - 1
            for v in c['vectors']:
                v[i] &= _mask(w - 1)
            yield c
            if gen == 'signed_tree_multiplier':
                # keep the sign bit instead of the magnitude's top bit
                c = copy.deepcopy(case)
                c['widths'][i] = w - 1
                for v in c['vectors']:
                    v[i] = ((v[i] >> 1) & (1 << (w - 2))) | (v[i] & _mask(w - 2))
                yield c
    # simpler values
    if len(vecs) <= 3:
        for vi, v in enumerate(vecs):
            for i, x in enumerate(v):
                for nv in _simpler_values(x):
                    c = copy.deepcopy(case)
                    c['vectors'][vi][i] = nv
                    yield c


def candidates(case):
    if case['kind'] == 'seq':
        return seq_candidates(case)
    return comb_candidates(case)


def sample_of(case):
    if case['kind'] == 'seq':
        return {'kind': 'seq', 'gen': case['gen'], 'aw': case['aw'], 'bw': case['bw'],
                'shifts': case['shifts'], 'sim': case['sim'], 'mode': case.get('mode'),
                'ncycles': len(case['cycles']), 'tape_head': case['cycles'][:12]}
    return {'kind': 'comb', 'gen': case['gen'], 'widths': case['widths'], 'cfg': case['cfg'],
            'sim': case['sim'], 'exhaustive': case.get('exhaustive'),
            'nvectors': (1 << sum(vec_widths(case))) if case.get('exhaustive')
            else len(case['vectors']), 'vectors_head': (case['vectors'] or [])[:4]}
