"""C01 -- pyrtl.Simulation computes the documented cycle semantics of every primitive.

World: one NET-dialect design, one pyrtl.Simulation tracing every wire, one RefSim.
Schedule: hash seed, statement permutation, Block.__iter__ tie-break policy.
Faults: reject_step (illegal input between legal steps), foreign_activity.
Oracle (every cycle, every wire): inspect == last trace entry == RefSim, 0 <= v < 2^w;
at the end inspect_mem == RefSim memory on every touched/initialised address.
"""
import copy
import hashlib

from .. import gen, shrink, world, common
from ..common import Violation, HarnessError, mask
from ..netlist import script_shape
from ..refsim import DoubleWrite

ID = 'C01'
LEVEL = 'exploration'

COMPONENTS = {'real': ['pyrtl.Simulation (_initialize, step, _execute, _mem_update, inspect, inspect_mem)',
                       'SimulationTrace', 'Block.__iter__ (tie-breaks through the PYRTL_VERIF hook)',
                       'Block.add_net / sanity_check (design construction)'],
              'stub': ['RefSim reference model (verifsim/refsim.py)']}

TIERS = {
    'quick': {'runs': 60000, 'classes': 8, 'budget_s': 60},
    'thorough': {'runs': 2000000, 'classes': 32, 'budget_s': 1100},
}


def gen_case(streams, tier):
    g = streams['gen']
    big = tier == 'thorough' and g.random() < 0.3
    cfg = gen.make_cfg(nets=(3, 40) if big else (3, 22), rom_holes_prob=0.4, dup_mem_name_prob=0.3)
    script = gen.gen_script(g, cfg)
    script, stage = gen.maybe_stage(g, script, 0.2, ['sim', 'fast', 'export', 'analysis', 'optimized_copy', 'copy', 'reset'])
    ncyc = streams['inputs'].randint(1, 12)
    case = {
        'prop': ID,
        'script': script,
        'init': gen.gen_init(g, script, mem_misfit=True),
        'cycles': gen.gen_inputs(streams['inputs'], script, ncyc),
        'faults': world.gen_reject_faults(streams['faults'], script, ncyc, rate=0.4),
        'sched': world.gen_sched(streams),
        'dut_is_working': g.random() < 0.3,
        'second_instance': g.random() < 0.2,
        'stage': stage,
    }
    f = streams['faults']
    if f.random() < 0.3:
        case['faults'].append({'kind': 'foreign_activity', 'at': f.randrange(ncyc),
                               'seed': f.getrandbits(32)})
    one_bit = [w['n'] for w in script['wires'] if w['w'] == 1 and w['k'] in 'WRI']
    # an rtl_assert on some 1-bit wire: when it fires the caller catches the exception and
    # keeps stepping (the asserting step is a complete cycle)
    case['assert_wire'] = f.choice(one_bit) if one_bit and f.random() < 0.25 else None
    # a constructor call that is refused first: its memory_value_map holds a word that does not
    # fit; the real simulator is then built without mentioning that memory at all
    rams = [i for i, m in enumerate(script['mems']) if not m.get('rom')]
    case['bad_init_first'] = f.choice(rams) if rams and f.random() < 0.3 else None
    if case['bad_init_first'] is not None:
        case['init']['mems'].pop(str(case['bad_init_first']), None)
    # the design was simulated once while one of its gates was still another gate: the net is
    # then replaced in place (same number of nets) and the design simulated for real
    gates = [i for i, n in enumerate(script['nets']) if n['op'] in '&|^n' and stage is None]
    case['swap'] = None
    if gates and f.random() < 0.2:
        i = f.choice(gates)
        case['swap'] = {'net': i, 'old_op': f.choice([o for o in '&|^n' if o != script['nets'][i]['op']])}
    case['cycles'], hole_faults = gen.split_rom_holes(script, case['init'], case['cycles'])
    case['faults'] += hole_faults
    return case


def run(case, res):
    import pyrtl
    script = case['script']
    init = case['init']
    sched = case['sched']
    world.setup_world(sched)
    sw = case.get('swap')
    if sw and sw['net'] < len(script['nets']) and script['nets'][sw['net']]['op'] in '&|^n':
        import copy as _copy
        early = _copy.deepcopy(script)
        early['nets'][sw['net']]['op'] = sw['old_op']
        b = world.build_dut(early, sched)
        blk0 = b.block
        try:
            s0 = pyrtl.Simulation(tracer=pyrtl.SimulationTrace('all', block=blk0), block=blk0)
            s0.step({w.name: 0 for w in blk0.wirevector_subset(pyrtl.Input)})
        except pyrtl.PyrtlError:
            pass
        dname = script['nets'][sw['net']]['d'][0]
        old = [n for n in blk0.logic if n.dests and n.dests[0] is b.wires[dname]]
        if len(old) != 1:
            raise HarnessError('swap: driver not found')
        blk0.logic.remove(old[0])
        blk0.add_net(pyrtl.LogicNet(script['nets'][sw['net']]['op'], None, old[0].args, old[0].dests))
        res.faults.hit('net_replaced_in_place_after_a_simulation')
    else:
        b = world.build_dut(script, sched, stage=world.stage_with_hook(case.get('stage'), res))
    if case.get('dut_is_working'):
        pyrtl.set_working_block(b.block, no_sanity_check=True)
    bi = case.get('bad_init_first')
    if bi is not None and bi < len(b.mems) and str(bi) not in init.get('mems', {}):
        m = b.mems[bi]
        amax = (1 << m.addrwidth) - 1
        bad_map = {m: {0: 1, amax: 1, min(1, amax): 1 << m.bitwidth}}     # the misfit comes last
        for other_i, om in enumerate(b.mems):
            if other_i != bi and not script['mems'][other_i].get('rom'):
                bad_map[om] = {0: 1}
        try:
            pyrtl.Simulation(tracer=pyrtl.SimulationTrace('all', block=b.block),
                             memory_value_map=bad_map, block=b.block)
        except pyrtl.PyrtlError:
            res.faults.hit('constructor_refused_for_bad_memory_word')
        else:
            raise common.Inconclusive('a memory word that does not fit was accepted')
    ref = world.ref_for(script, init)
    if case.get('assert_wire') in b.wires:
        with pyrtl.set_working_block(b.block, no_sanity_check=True):
            pyrtl.rtl_assert(b.wires[case['assert_wire']], common.PlantedAssertion('planted'),
                             block=b.block)
    sim = world.make_sim('sim', b, init)
    # a second pyrtl.Simulation of the same block, stepped alternately with the first: state
    # shared between instances (class attributes, default arguments) would show in either
    sim2 = world.make_sim('sim', b, init) if case.get('second_instance') else None
    res.shape = hashlib.sha1(script_shape(script).encode()).hexdigest()[:12]
    res.sched = hashlib.sha1('|'.join(
        (n.dests[0].name if n.dests else '@' + n.args[0].name) for n in sim.ordered_nets
    ).encode()).hexdigest()[:12]
    world.shape_probes(script, res.probes)
    widths = {w['n']: w['w'] for w in script['wires']}
    faults = {}
    for f in case['faults']:
        faults.setdefault(f['at'], []).append(f)
    res.log.log('builder', 'built', len(script['nets']), res.sched)
    for ci, cyc in enumerate(case['cycles']):
        for f in faults.get(ci, []):
            if f['kind'] == 'reject_step':
                v = world.apply_reject(sim, f, cyc, 'sim')
                res.faults.hit('reject_step' if f['value'] != 'rom_hole' else 'rom_hole_read')
                res.log.log('fault', 'reject_step', f['wire'], v is None)
                if v:
                    return v
            elif f['kind'] == 'foreign_activity':
                vals = world.foreign_activity(f['seed'])
                res.faults.hit('foreign_activity')
                res.log.log('fault', 'foreign', f['seed'], vals)
        try:
            exp = ref.step(cyc)
        except DoubleWrite:
            res.probes.hit('undefined_double_write')
            break
        except common.RomHole:
            raise common.Inconclusive('a cycle of the tape reads a ROM hole')
        try:
            sim.step(dict(cyc))
        except common.PlantedAssertion:
            res.faults.hit('assertion_fired_and_caught')
        if sim2 is not None:
            try:
                sim2.step(dict(cyc))
            except common.PlantedAssertion:
                pass
            for name, ev in exp.items():
                if sim2.inspect(name) != ev:
                    return Violation('wire_value', 'second_instance_value_mismatch',
                                     {'wire': name, 'cycle': ci, 'expected': ev,
                                      'got': sim2.inspect(name)}, ['second_instance'])
            res.probes.hit('second_instance_cycles')
        res.cycles += 1
        for name, ev in exp.items():
            got = sim.inspect(name)
            tr = sim.tracer.trace[name]
            if len(tr) != res.cycles:
                return Violation('trace_length', 'mismatch', {'wire': name, 'len': len(tr),
                                                              'cycles': res.cycles})
            if not (0 <= got <= mask(widths[name])):
                return Violation('range', 'value_out_of_range',
                                 {'wire': name, 'cycle': ci, 'got': got})
            if got != ev or tr[-1] != ev:
                return Violation('wire_value', 'value_mismatch',
                                 {'wire': name, 'cycle': ci, 'expected': ev, 'inspect': got,
                                  'trace': tr[-1], 'net': _driver(script, name)},
                                 tags=_tags(script, name))
        res.log.log('sim', 'step', ci, hashlib.sha1(repr(sorted(exp.items())).encode()).hexdigest()[:8])
    for mi, m in enumerate(script['mems']):
        if m.get('rom'):
            continue
        got = sim.inspect_mem(b.mems[mi])
        want = ref.mems[str(mi)]
        dv = init.get('default', 0)
        for a in set(got.keys()) | set(want.keys()):
            if got.get(a, dv) != want.get(a, dv):
                return Violation('memory', 'content_mismatch',
                                 {'mem': mi, 'addr': a, 'expected': want.get(a, dv),
                                  'got': got.get(a, dv)})
        if want:
            res.probes.hit('mem_words_checked', len(want))
    res.nontrivial = res.cycles >= 1
    _history_probes(case, res)
    return None


def _driver(script, name):
    for n in script['nets']:
        if name in n['d']:
            return {'op': n['op'], 'a': n['a'], 'p': n['p'] if n['op'] == 's' else None}
    return None


def _tags(script, name):
    d = _driver(script, name)
    return ['op:' + d['op']] if d else []


def _history_probes(case, res):
    script = case['script']
    regs = {w['n'] for w in script['wires'] if w['k'] == 'R'}
    for n in script['nets']:
        if n['op'] == 'r' and n['a'][0] in regs:
            res.probes.hit('reg_chain')
    if res.cycles >= 2 and regs:
        res.probes.hit('multi_cycle_reg_history')
    if any(n['op'] == '@' for n in script['nets']) and res.cycles >= 2:
        res.probes.hit('multi_cycle_mem_history')


def candidates(case):
    # fewer cycles, fewer faults, simpler schedule, smaller script, simpler values
    cyc = case['cycles']
    for k in range(len(cyc) - 1, 0, -1):
        c = copy.deepcopy(case)
        c['cycles'] = cyc[:k]
        c['faults'] = [f for f in c['faults'] if f['at'] < k]
        yield c
    for i in range(len(case['faults'])):
        c = copy.deepcopy(case)
        del c['faults'][i]
        yield c
    for c in shrink.drop_cycle_variants(case):
        yield c
    if case['sched'].get('iter_policy') or case['sched'].get('perm_seed') is not None:
        c = copy.deepcopy(case)
        c['sched']['iter_policy'] = None
        c['sched']['perm_seed'] = None
        c['sched']['noise'] = 0
        yield c
    if case.get('dut_is_working'):
        c = copy.deepcopy(case)
        c['dut_is_working'] = False
        yield c
    if case.get('assert_wire'):
        c = copy.deepcopy(case)
        c['assert_wire'] = None
        yield c
    if case.get('bad_init_first') is not None:
        c = copy.deepcopy(case)
        c['bad_init_first'] = None
        yield c
    if case.get('swap'):
        c = copy.deepcopy(case)
        c['swap'] = None
        yield c
    if case.get('second_instance'):
        c = copy.deepcopy(case)
        c['second_instance'] = False
        yield c
    for s in shrink.script_candidates(case['script']):
        c = copy.deepcopy(case)
        c['script'] = s
        c['init'] = shrink.remap_init(case['init'], s)
        c['cycles'] = shrink.remap_cycles(case['cycles'], s)
        ins = {w['n'] for w in s['wires'] if w['k'] == 'I'}
        c['faults'] = [f for f in c['faults'] if f['kind'] != 'reject_step' or f['wire'] in ins
                       or (f.get('value') == 'rom_hole' and set(f['inputs']) <= ins)]
        s.pop('_memremap', None)
        yield c
    if case['init'].get('regs') or case['init'].get('mems') or case['init'].get('default'):
        c = copy.deepcopy(case)
        c['init'] = {'regs': {}, 'mems': {}, 'default': 0}
        yield c
    for t in shrink.simplify_values(case['cycles']):
        c = copy.deepcopy(case)
        c['cycles'] = t
        yield c


def sample_of(case):
    return {'nets': [[n['op'], n['a'], n['d']] for n in case['script']['nets'][:12]],
            'n_nets': len(case['script']['nets']), 'cycles': case['cycles'][:2],
            'n_cycles': len(case['cycles']), 'faults': case['faults'], 'sched': case['sched']}
