"""C10 -- malformed netlists are rejected; API-built designs iterate in dependency order.

Negative half (fault enumeration): for each sampled valid design every applicable site of
every structural fault class is visited (sampled above a cap): second driver, removed
driver, dangling wire, wire of another block, arity, operand widths, destination too wide,
op_param corruption, illegal op, Input/Const as destination, Output as argument, duplicate
name, register-free loop (including loops made only of w/c/s nets upstream of a synchronous
memory address). Faults the API would refuse are written directly into Block.logic /
wirevector_set (the "storage" level). Every injector's effect is confirmed by an
independent validator (verifsim code, no PyRTL checker) -- a site where the mutation is a
no-op is skipped, never judged. Oracle: sanity_check() raises PyrtlError/PyrtlInternalError,
or -- when it accepts (loops are found by iteration, not by sanity_check) -- each simulator
constructor does; any other exception type, a hang, or a constructed simulator is a
violation.
Positive half (schedules): every generated design passes sanity_check and is accepted by the
simulators; under K tie-break schedules (hook) x hash seeds x statement orders, list(block)
yields each net exactly once, after the producers of all its non-register arguments.
"""
import copy
import hashlib
import random
import signal

from .. import gen, shrink, world, common, transforms
from ..common import Violation, HarnessError
from ..netlist import build, script_shape

ID = 'C10'
LEVEL = 'fault_enumeration'
RUN_TIMEOUT_S = 300.0
SITE_TIMEOUT_S = 4.0
MIN_BUDGET = 120
HANG_IS_VIOLATION = False     # hangs are detected per site, inside run()

TIERS = {
    'quick': {'runs': 1200, 'classes': 8, 'budget_s': 60},
    'thorough': {'runs': 80000, 'classes': 32, 'budget_s': 1100},
}

RULE = ('one evaluation = one sampled valid design with all its sampled fault sites and K '
        'iteration schedules; non-trivial = at least one fault site judged; distinct = distinct '
        '(design shape, schedule digest, judged-site multiset, event-log digest)')

COMPONENTS = {'real': ['Block.sanity_check / sanity_check_net / sanity_check_memory_sync',
                       'Block.__iter__ (with the PYRTL_VERIF tie-break hook)',
                       'Simulation / FastSimulation / CompiledSimulation constructors'],
              'stub': ['independent malformedness validator (witness for every injected fault)']}

FAULT_CLASSES = ['second_driver', 'remove_driver', 'dangling_wire', 'foreign_wire', 'arity',
                 'operand_width', 'dest_too_wide', 'op_param', 'illegal_op', 'input_as_dest',
                 'output_as_arg', 'duplicate_name', 'comb_loop']
EXPECTED_PROBES = ['judged:' + c for c in FAULT_CLASSES] + ['judged:comb_loop_sync_mem_addr']


class SiteTimeout(Exception):
    pass


def gen_case(streams, tier):
    g = streams['gen']
    cfg = gen.make_cfg(nets=(2, 16), class_pool=['bit', 'small', 'mid', 'w64'],
                       mem_wide_aw=0.0, regs=(0, 3), mems=(0, 2), async_prob=0.3,
                       names=g.choice(['plain', 'awkward']), awk_internal=0.3,
                       awk_exclude=('tmp',), dup_mem_name_prob=0.3, awk_pair_prob=0.4)
    script = gen.gen_script(g, cfg)
    f = streams['faults']
    sites = enumerate_sites(script, f)
    cap = 200 if tier == 'quick' else 1000
    if len(sites) > cap:
        # keep every class represented, then sample
        by = {}
        for s in sites:
            by.setdefault(s['cls'], []).append(s)
        keep = []
        for c in sorted(by):
            f.shuffle(by[c])
            keep.extend(by[c][:max(2, cap // len(by))])
        sites = keep[:cap + 20]
    s = streams['sched']
    K = s.choice([8, 8, 16]) if tier == 'quick' else s.choice([16, 32, 64])
    scheds = [{'hash_seed': s.getrandbits(48), 'perm_seed': s.getrandbits(32),
               'iter_policy': s.choice(['random', 'random', 'lifo', 'fifo', None]),
               'iter_seed': s.getrandbits(48)} for _ in range(K)]
    from . import c17
    api_prog = c17.gen_program(g) if g.random() < 0.35 else None
    return {'prop': ID, 'script': script, 'sites': sites, 'scheds': scheds,
            'api_prog': api_prog,
            'compiled': g.random() < 0.2,
            'sched': world.gen_sched(streams, with_iter=False, noise=False)}


# ---------------------------------------------------------------------------------------
# site enumeration (on the script) and injection (on the live block)
# ---------------------------------------------------------------------------------------

def enumerate_sites(script, rng):
    W = {w['n']: w for w in script['wires']}
    nets = script['nets']
    sites = []
    driven = [n['d'][0] for n in nets if n['d']]
    for i, n in enumerate(nets):
        op = n['op']
        if n['d']:
            sites.append({'cls': 'second_driver', 'net': i})
            sites.append({'cls': 'remove_driver', 'net': i})
            sites.append({'cls': 'dest_too_wide', 'net': i})
            sites.append({'cls': 'foreign_wire', 'net': i, 'pos': 'd0'})
            if op != 'r':
                sites.append({'cls': 'comb_loop', 'net': i})
        for ai in range(len(n['a'])):
            sites.append({'cls': 'foreign_wire', 'net': i, 'pos': 'a%d' % ai})
            sites.append({'cls': 'output_as_arg', 'net': i, 'arg': ai})
        sites.append({'cls': 'arity', 'net': i, 'how': 'drop'})
        sites.append({'cls': 'arity', 'net': i, 'how': 'add'})
        if op in '&|^n+-*<>=x' or op in 'm@':
            sites.append({'cls': 'operand_width', 'net': i})
        for how in ('none', 'type', 'range', 'len', 'notnone'):
            sites.append({'cls': 'op_param', 'net': i, 'how': how})
        sites.append({'cls': 'illegal_op', 'net': i})
        sites.append({'cls': 'input_as_dest', 'net': i})
    for wi, w in enumerate(script['wires']):
        sites.append({'cls': 'duplicate_name', 'wire': wi})
    sites.append({'cls': 'dangling_wire', 'w': 1 + rng.randrange(8)})
    sites.append({'cls': 'dangling_wire', 'w': 65})
    return sites


def _replace_net(blk, old, new):
    blk.logic.remove(old)
    blk.logic.add(new)


def _find_net(b, script, i):
    """The live LogicNet built from script net i (by identity of its wires)."""
    n = script['nets'][i]
    args = [b.wires[x] for x in n['a']]
    dests = [b.wires[x] for x in n['d']]
    for net in b.block.logic:
        if net.op != n['op'] or len(net.args) != len(args) or len(net.dests) != len(dests):
            continue
        if all(x is y for x, y in zip(net.args, args)) and all(x is y for x, y in zip(net.dests, dests)):
            if n['op'] in 'm@' and net.op_param[1] is not b.mems[n['p']]:
                continue
            if n['op'] == 's' and tuple(n['p']) != net.op_param:
                continue
            return net
    raise HarnessError('net not found')


def inject(b, script, site, rng):
    """Mutate the live block. Returns the class the independent validator must confirm, or
    None when the site does not apply."""
    import pyrtl
    LN = pyrtl.LogicNet
    blk = b.block
    cls = site['cls']
    if cls == 'dangling_wire':
        w = pyrtl.WireVector(site['w'], 'dangling_x', block=blk)
        return 'unconnected'
    if cls == 'duplicate_name':
        ws = script['wires']
        if len(ws) < 2:
            return None
        w = b.wires[ws[site['wire']]['n']]
        other = b.wires[ws[(site['wire'] + 1) % len(ws)]['n']]
        w._name = other.name          # storage-level: the name index is not told
        return 'dupname'
    net = _find_net(b, script, site['net'])
    if cls == 'second_driver':
        d = net.dests[0]
        src = None
        for w in sorted(blk.wirevector_set, key=lambda w: w.name):
            if w is not d and not isinstance(w, pyrtl.Output) and w.bitwidth >= d.bitwidth:
                src = w
                break
        if src is None:
            return None
        if isinstance(d, pyrtl.Register):
            extra = LN('r', None, (src,), (d,))
        else:
            extra = LN('w', None, (src,), (d,))
        if any(extra == x for x in blk.logic):
            return None
        blk.logic.add(extra)
        return 'multidriver'
    if cls == 'remove_driver':
        blk.logic.remove(net)
        return 'undriven_or_unconnected'
    if cls == 'dest_too_wide':
        if net.op in '<>=m':
            return None
        bounds = {'+': lambda a: a[0] + 1, '-': lambda a: a[0] + 1, '*': lambda a: 2 * a[0],
                  'c': lambda a: sum(a), 's': lambda a: len(net.op_param), 'x': lambda a: a[1]}
        aw = [a.bitwidth for a in net.args]
        bound = bounds[net.op](aw) if net.op in bounds else aw[0]
        net.dests[0].bitwidth = bound + 1 + rng.randrange(3)    # storage-level corruption
        return 'net_malformed'
    if cls == 'foreign_wire':
        pos = site['pos']
        fb = pyrtl.Block()
        if pos == 'd0':
            old = net.dests[0]
            fw = old.__class__(old.bitwidth, 'foreign_w', block=fb) if not isinstance(old, pyrtl.Const) \
                else pyrtl.WireVector(old.bitwidth, 'foreign_w', block=fb)
            _replace_net(blk, net, LN(net.op, net.op_param, net.args, (fw,)))
        else:
            k = int(pos[1:])
            old = net.args[k]
            fw = pyrtl.WireVector(old.bitwidth, 'foreign_w', block=fb)
            args = tuple(fw if j == k else a for j, a in enumerate(net.args))
            _replace_net(blk, net, LN(net.op, net.op_param, args, net.dests))
        return 'foreign'
    if cls == 'arity':
        if site['how'] == 'drop':
            if net.op == 'c' and len(net.args) > 1:
                return None      # concat of fewer wires is still a concat
            args = net.args[:-1]
        else:
            if net.op == 'c':
                return None
            args = net.args + (net.args[-1],)
        _replace_net(blk, net, LN(net.op, net.op_param, args, net.dests))
        return 'net_malformed'
    if cls == 'operand_width':
        k = {'x': 0, 'm': 0, '@': rng.choice([0, 1, 2])}.get(net.op, 1)
        old = net.args[k]
        nw = pyrtl.Input(old.bitwidth + 1 + rng.randrange(2), 'widthfault_in', block=blk)
        args = tuple(nw if j == k else a for j, a in enumerate(net.args))
        _replace_net(blk, net, LN(net.op, net.op_param, args, net.dests))
        # the old operand may now be unread; that is a second (also illegal or legal) effect
        return 'net_malformed'
    if cls == 'op_param':
        how = site['how']
        op = net.op
        if how == 'none':
            if op not in 'sm@':
                return None
            p = None
        elif how == 'type':
            if op == 's':
                p = rng.choice([(0.0,), ('0',), 0, (None,)])
            elif op in 'm@':
                p = rng.choice([(net.op_param[0], 'mem'), ('id', net.op_param[1]),
                                net.op_param[1], net.op_param[0]])
            else:
                return None
        elif how == 'range':
            if op != 's':
                return None
            p = net.op_param[:-1] + (rng.choice([-1, net.args[0].bitwidth,
                                                net.args[0].bitwidth + 7]),)
        elif how == 'len':
            if op not in 'm@':
                return None
            p = rng.choice([(net.op_param[0],), net.op_param + (0,), ()])
        else:
            if op in 'sm@':
                return None
            p = rng.choice([0, (0,), 'x', ()])
        _replace_net(blk, net, LN(op, p, net.args, net.dests))
        return 'net_malformed'
    if cls == 'illegal_op':
        _replace_net(blk, net, LN(rng.choice(['q', '!', 'W', 'wx', '']), net.op_param, net.args, net.dests))
        return 'net_malformed'
    if cls == 'input_as_dest':
        tgt = None
        for w in sorted(blk.wirevector_set, key=lambda w: w.name):
            if isinstance(w, (pyrtl.Input, pyrtl.Const)) and net.args and \
                    w.bitwidth <= net.args[0].bitwidth and not any(w is a for a in net.args):
                tgt = w
                break
        if tgt is None:
            return None
        blk.logic.add(LN('w', None, (net.args[0],), (tgt,)))
        return 'net_malformed'
    if cls == 'output_as_arg':
        k = site['arg']
        old = net.args[k]
        outw = None
        for w in sorted(blk.wirevector_set, key=lambda w: w.name):
            if isinstance(w, pyrtl.Output) and w.bitwidth == old.bitwidth and \
                    not any(w is d for d in net.dests):
                outw = w
                break
        if outw is None:
            return None
        args = tuple(outw if j == k else a for j, a in enumerate(net.args))
        _replace_net(blk, net, LN(net.op, net.op_param, args, net.dests))
        return 'net_malformed'
    if cls == 'comb_loop':
        # feed net's own (possibly downstream) result back into one of its arguments through
        # a select adaptor of the right width: a register-free cycle
        if not net.args:
            return None
        d = net.dests[0]
        # choose a wire downstream of d through combinational nets (d itself qualifies)
        down = _downstream(blk, d)
        src = rng.choice(sorted(down, key=lambda w: w.name))
        if isinstance(src, pyrtl.Output):
            src = d
        k = rng.randrange(len(net.args))
        old = net.args[k]
        fb = pyrtl.WireVector(old.bitwidth, 'loop_fb', block=blk)
        blk.logic.add(LN('s', tuple(rng.randrange(src.bitwidth) for _ in range(old.bitwidth)),
                         (src,), (fb,)))
        args = tuple(fb if j == k else a for j, a in enumerate(net.args))
        _replace_net(blk, net, LN(net.op, net.op_param, args, net.dests))
        return 'loop'
    raise HarnessError('fault class ' + cls)


def _downstream(blk, d):
    import pyrtl
    readers = {}
    for n in blk.logic:
        for a in n.args:
            readers.setdefault(id(a), []).append(n)
    seen = {id(d): d}
    todo = [d]
    while todo:
        w = todo.pop()
        for n in readers.get(id(w), []):
            if n.op in 'r@':
                continue
            for x in n.dests:
                if id(x) not in seen:
                    seen[id(x)] = x
                    todo.append(x)
    return list(seen.values())


# ---------------------------------------------------------------------------------------
# independent validator (no PyRTL checker is called)
# ---------------------------------------------------------------------------------------

def validate(blk):
    """-> set of malformedness classes found in the live block."""
    import pyrtl
    from pyrtl import memory
    found = set()
    wires = list(blk.wirevector_set)
    wid = {id(w) for w in wires}
    names = {}
    for w in wires:
        names[w.name] = names.get(w.name, 0) + 1
    if any(c > 1 for c in names.values()):
        found.add('dupname')
    for k, w in blk.wirevector_by_name.items():
        if k != w.name:
            found.add('dupname')
    drivers = {}
    readers = {}
    prod = {}
    arity = {'w': 1, '~': 1, 'r': 1, 's': 1, 'm': 1, '&': 2, '|': 2, '^': 2, 'n': 2, '+': 2,
             '-': 2, '*': 2, '<': 2, '>': 2, '=': 2, 'x': 3, '@': 3}
    for n in blk.logic:
        bad = False
        for w in n.args + n.dests:
            if id(w) not in wid or w._block is not blk:
                found.add('foreign')
                bad = True
        for d in n.dests:
            drivers[id(d)] = drivers.get(id(d), 0) + 1
            prod[id(d)] = n
            if isinstance(d, (pyrtl.Input, pyrtl.Const)):
                found.add('net_malformed')
        for a in n.args:
            readers[id(a)] = readers.get(id(a), 0) + 1
            if isinstance(a, pyrtl.Output):
                found.add('net_malformed')
        op = n.op
        if not isinstance(op, str) or len(op) != 1 or op not in 'w~&|^n+-*<>=xcsrm@':
            found.add('net_malformed')
            continue
        if op in arity and len(n.args) != arity[op]:
            found.add('net_malformed')
            continue
        if op == 'c' and len(n.args) < 1:
            found.add('net_malformed')
            continue
        if (op == '@' and len(n.dests) != 0) or (op != '@' and len(n.dests) != 1):
            found.add('net_malformed')
            continue
        aw = [a.bitwidth for a in n.args]
        dw = n.dests[0].bitwidth if n.dests else None
        p = n.op_param
        if op in 'w~&|^n+-*<>=xcr' and p is not None:
            found.add('net_malformed')
        if op == 's':
            if not isinstance(p, tuple) or not p or \
                    any((not isinstance(i, int)) or i < 0 or i >= aw[0] for i in p):
                found.add('net_malformed')
                continue
            if dw > len(p):
                found.add('net_malformed')
        if op in 'm@':
            if not (isinstance(p, tuple) and len(p) == 2 and isinstance(p[0], int)
                    and isinstance(p[1], memory.MemBlock)):
                found.add('net_malformed')
                continue
            if aw[0] != p[1].addrwidth:
                found.add('net_malformed')
            if op == 'm' and dw != p[1].bitwidth:
                found.add('net_malformed')
            if op == '@' and (aw[1] != p[1].bitwidth or aw[2] != 1):
                found.add('net_malformed')
        if op in '&|^n+-*<>=' and aw[0] != aw[1]:
            found.add('net_malformed')
        if op in 'w~&|^nr' and dw > aw[0]:
            found.add('net_malformed')
        if op in '+-' and dw > aw[0] + 1:
            found.add('net_malformed')
        if op == '*' and dw > 2 * aw[0]:
            found.add('net_malformed')
        if op in '<>=' and dw != 1:
            found.add('net_malformed')
        if op == 'x' and (aw[0] != 1 or aw[1] != aw[2] or dw > aw[1]):
            found.add('net_malformed')
        if op == 'c' and dw > sum(aw):
            found.add('net_malformed')
        if op == 'r' and not isinstance(n.dests[0], pyrtl.Register):
            found.add('net_malformed')
    for w in wires:
        k = id(w)
        isrc = isinstance(w, (pyrtl.Input, pyrtl.Const))
        if drivers.get(k, 0) > 1:
            found.add('multidriver')
        if not isrc and drivers.get(k, 0) == 0:
            found.add('undriven_or_unconnected')
        if not isrc and drivers.get(k, 0) == 0 and readers.get(k, 0) == 0:
            found.add('unconnected')
    if found:
        return found
    # register-free cycles (iterative DFS over producers)
    state = {}
    for w in wires:
        if state.get(id(w)) == 2:
            continue
        stack = [(w, 0)]
        while stack:
            x, i = stack.pop()
            if i == 0:
                if state.get(id(x)) == 2:
                    continue
                state[id(x)] = 1
            n = prod.get(id(x))
            if isinstance(x, (pyrtl.Input, pyrtl.Const, pyrtl.Register)) or n is None or n.op == 'r':
                state[id(x)] = 2
                continue
            if i < len(n.args):
                stack.append((x, i + 1))
                y = n.args[i]
                if state.get(id(y)) == 1:
                    found.add('loop')
                    return found
                if state.get(id(y)) != 2:
                    stack.append((y, 0))
            else:
                state[id(x)] = 2
    return found


def loop_is_sync_mem_addr(blk):
    """Is there a cycle made only of w/c/s nets upstream of a synchronous memory address?"""
    prod = {}
    for n in blk.logic:
        for d in n.dests:
            prod[id(d)] = n
    for n in blk.logic:
        if n.op == 'm' and not n.op_param[1].asynchronous:
            seen = set()
            todo = [n.args[0]]
            while todo:
                w = todo.pop()
                if id(w) in seen:
                    return True
                seen.add(id(w))
                p = prod.get(id(w))
                if p is not None and p.op in 'wcs':
                    todo.extend(p.args)
    return False


# ---------------------------------------------------------------------------------------

def _with_site_timeout(fn):
    """A call that burns more than SITE_TIMEOUT_S of this process's CPU time is a hang. CPU
    time (ITIMER_PROF), not wall time: a loaded machine stretches wall time, not CPU time, and
    these calls normally cost milliseconds. (The run's wall-clock limit stays in force.)"""
    signal.signal(signal.SIGPROF, common.alarm_handler)
    signal.setitimer(signal.ITIMER_PROF, SITE_TIMEOUT_S)
    try:
        return fn()
    except common.RunTimeout:
        if signal.getitimer(signal.ITIMER_PROF)[0] > 0:
            raise           # the run's wall-clock alarm, not ours
        raise SiteTimeout()
    finally:
        signal.setitimer(signal.ITIMER_PROF, 0)


def judge(blk, want_compiled):
    """-> ('rejected', where) | ('violation', class, detail)"""
    import pyrtl
    ok = (pyrtl.PyrtlError, pyrtl.PyrtlInternalError)
    rejected_by_sanity = False
    try:
        _with_site_timeout(blk.sanity_check)
    except ok:
        rejected_by_sanity = True
    except SiteTimeout:
        return ('violation', 'hang', {'where': 'sanity_check'})
    except Exception as e:
        return ('violation', 'wrong_exception_type', {'where': 'sanity_check', 'exc': repr(e)[:200]})
    # the constructors are offered the block as well, whatever sanity_check said: a user who
    # hands a malformed block straight to a simulator must not get a simulator back
    want_compiled = want_compiled or rejected_by_sanity

    def tr():
        return pyrtl.SimulationTrace('all', block=blk)
    ctors = [('Simulation', lambda: pyrtl.Simulation(tracer=tr(), block=blk)),
             ('FastSimulation', lambda: pyrtl.FastSimulation(tracer=tr(), block=blk))]
    if want_compiled:
        ctors.append(('CompiledSimulation', lambda: pyrtl.CompiledSimulation(tracer=tr(), block=blk)))
    for name, ctor in ctors:
        try:
            _with_site_timeout(ctor)
        except ok:
            continue
        except SiteTimeout:
            return ('violation', 'hang', {'where': name})
        except Exception as e:
            return ('violation', 'wrong_exception_type', {'where': name, 'exc': repr(e)[:200]})
        return ('violation', 'malformed_block_accepted',
                {'where': name, 'sanity_check_rejects_it': rejected_by_sanity})
    return ('rejected', 'sanity_check+constructors' if rejected_by_sanity else 'constructors')


def run(case, res):
    import pyrtl
    script = case['script']
    sched = case['sched']
    world.setup_world(sched)
    # ---- positive half ------------------------------------------------------------------
    # somebody else's block, restricted in place to the ops its owner wants to allow: what one
    # Block permits is that Block's own business
    theirs = pyrtl.Block()
    for op_ in sorted(theirs.legal_ops)[::2]:
        theirs.legal_ops.discard(op_)
    res.faults.hit('foreign_block_narrows_its_legal_ops')
    b = build(script, perm_seed=sched.get('perm_seed'))
    # the user tries out a few names on one wire and settles on the original one again; whether
    # a name is taken or refused, the design is the same design afterwards
    cand = sorted((w for w in b.block.wirevector_set if type(w) is pyrtl.WireVector), key=lambda w: w.name)
    if cand:
        w0 = cand[sched.get('hash_seed', 0) % len(cand)]
        orig_name = w0.name
        for nm in ('tmp_%s' % orig_name, 'x y', orig_name, 'clk', 'CLOCK'):
            try:
                w0.name = nm
            except (pyrtl.PyrtlError, pyrtl.PyrtlInternalError):
                res.faults.hit('rename_refused')
        if w0.name != orig_name:
            w0.name = orig_name
        res.probes.hit('rename_attempts')
    # the user asks a memory for one read port more than it was declared with (refused), handles
    # the refusal and leaves the design as it was
    with pyrtl.set_working_block(b.block, no_sanity_check=True):
        full = sorted((m for m in set(n.op_param[1] for n in b.block.logic if n.op == 'm')
                       if m.max_read_ports is not None and m.num_read_ports >= m.max_read_ports
                       and not getattr(m, 'build_new_roms', False)),
                      key=lambda m: (m.name, m.id))
        try:
            if full:
                m0 = full[sched.get('hash_seed', 0) % len(full)]
                pyrtl.as_wires(m0[m0.readport_nets[0].args[0]])
            elif cand:
                spare = pyrtl.MemBlock(bitwidth=4, addrwidth=len(cand[0]), name='spare',
                                       max_read_ports=0, block=b.block)
                pyrtl.as_wires(spare[cand[0]])
        except pyrtl.PyrtlError:
            res.faults.hit('read_port_refused')
        else:
            if full or cand:
                return Violation('valid_design', 'read_port_beyond_max_read_ports_accepted', {}, ['positive'])
    # the user asks the block for its wires and whittles the answer down in place: the answer
    # is his to modify, the block's own set is not
    mine = b.block.wirevector_subset()
    mine -= b.block.wirevector_subset((pyrtl.Input, pyrtl.Output))
    while len(mine) > 1:
        mine.pop()
    try:
        b.block.sanity_check()
        pyrtl.Simulation(tracer=pyrtl.SimulationTrace('all', block=b.block), block=b.block)
        pyrtl.FastSimulation(tracer=pyrtl.SimulationTrace('all', block=b.block), block=b.block)
        if case.get('compiled'):
            pyrtl.CompiledSimulation(tracer=pyrtl.SimulationTrace('all', block=b.block),
                                     block=b.block)
            res.probes.hit('compiled_ctor')
    except (pyrtl.PyrtlError, pyrtl.PyrtlInternalError) as e:
        return Violation('valid_design', 'rejected', {'exc': repr(e)[:300]}, ['positive'])
    orders = set()
    for k, sc in enumerate(case['scheds']):
        common.install_hash_seam(sc['hash_seed'])
        bb = build(script, perm_seed=sc['perm_seed'])
        common.iter_seam.install(sc['iter_policy'], sc['iter_seed'])
        try:
            order = list(bb.block)
        except (pyrtl.PyrtlError, pyrtl.PyrtlInternalError) as e:
            return Violation('iteration', 'raises_on_valid_design', {'exc': repr(e)[:300], 'sched': k},
                             ['positive'])
        finally:
            common.iter_seam.uninstall()
        if len(order) != len(bb.block.logic):
            return Violation('iteration', 'net_count', {'yielded': len(order),
                                                        'nets': len(bb.block.logic), 'sched': k}, ['positive'])
        pos = {}
        for i, n in enumerate(order):
            key = id(n)
            if key in pos:
                return Violation('iteration', 'net_yielded_twice', {'net': str(n), 'sched': k}, ['positive'])
            pos[key] = i
        if len(pos) != len(order) or any(not any(n is m for m in bb.block.logic) for n in order[:3]):
            return Violation('iteration', 'foreign_net_yielded', {'sched': k}, ['positive'])
        prod = {}
        for n in bb.block.logic:
            for d in n.dests:
                prod[id(d)] = n
        for i, n in enumerate(order):
            for a in n.args:
                p = prod.get(id(a))
                if p is None or p.op == 'r':
                    continue
                if pos[id(p)] >= i:
                    return Violation('iteration', 'consumer_before_producer',
                                     {'net': str(n), 'producer': str(p), 'sched': k}, ['positive'])
        orders.add(tuple(pos[id(n)] for n in sorted(bb.block.logic, key=str)))
        res.cycles += 1
    # ---- positive half, API-built design (operators, slices, concat, select, registers,
    # memories through the public construction API) -------------------------------------------
    if case.get('api_prog'):
        from . import c17
        for k, sc in enumerate(case['scheds'][:4]):
            common.install_hash_seam(sc['hash_seed'])
            common.reset_world()
            implicit = False
            if k == 1:
                # a script: the user tries to switch to a malformed block (refused), carries on
                # in the working block he had, and never names a block
                implicit = True
                badb = pyrtl.Block()
                pyrtl.WireVector(2, 'dangling', block=badb)
                home = pyrtl.working_block()
                for form in ('call', 'with'):
                    try:
                        if form == 'call':
                            pyrtl.set_working_block(badb)
                        else:
                            with pyrtl.set_working_block(badb):
                                pass
                    except (pyrtl.PyrtlError, pyrtl.PyrtlInternalError):
                        res.faults.hit('switch_to_malformed_block_refused')
                if pyrtl.working_block() is not home:
                    res.probes.hit('working_block_moved_by_refused_switch')
            try:
                ab = c17.build(case['api_prog'], implicit=implicit)
            except (pyrtl.PyrtlError, pyrtl.PyrtlInternalError) as e:
                if implicit:
                    return Violation('valid_design', 'api_construction_refused_after_refused_switch',
                                     {'exc': repr(e)[:300]}, ['positive', 'api', 'implicit_block'])
                raise HarnessError('api program does not build: %r' % (e,))
            common.iter_seam.install(sc['iter_policy'], sc['iter_seed'])
            try:
                ab.block.sanity_check()
                pyrtl.Simulation(tracer=pyrtl.SimulationTrace('all', block=ab.block), block=ab.block)
                pyrtl.FastSimulation(tracer=pyrtl.SimulationTrace('all', block=ab.block), block=ab.block)
                order = list(ab.block)
            except (pyrtl.PyrtlError, pyrtl.PyrtlInternalError) as e:
                return Violation('valid_design', 'api_built_design_rejected',
                                 {'exc': repr(e)[:300], 'sched': k}, ['positive', 'api'])
            finally:
                common.iter_seam.uninstall()
            seen = set()
            prod = {}
            for n in ab.block.logic:
                for d in n.dests:
                    prod[id(d)] = n
            posn = {}
            for i, n in enumerate(order):
                if id(n) in posn:
                    return Violation('iteration', 'net_yielded_twice', {'net': str(n), 'sched': k},
                                     ['positive', 'api'])
                posn[id(n)] = i
            if len(order) != len(ab.block.logic):
                return Violation('iteration', 'net_count', {'yielded': len(order),
                                                            'nets': len(ab.block.logic)}, ['positive', 'api'])
            for i, n in enumerate(order):
                for a in n.args:
                    p = prod.get(id(a))
                    if p is not None and p.op != 'r' and posn[id(p)] >= i:
                        return Violation('iteration', 'consumer_before_producer',
                                         {'net': str(n), 'producer': str(p)}, ['positive', 'api'])
            res.probes.hit('api_built_schedules')
            if k == 0:
                # a second construction sitting on the same Block after somebody reset the
                # global working block in between
                pyrtl.reset_working_block()
                plain = sorted((w for w in ab.block.wirevector_set if not isinstance(w, pyrtl.Output)),
                               key=lambda w: w.name)
                try:
                    with pyrtl.set_working_block(ab.block, no_sanity_check=True):
                        late = pyrtl.Output(name='late_o')
                        late <<= ~(plain[0] ^ plain[len(plain) // 2]) + 1
                        hs = sched.get('hash_seed', 0)
                        if hs % 3 == 0:
                            # a wire class of the user's own ("each class inheriting from
                            # WireVector should overload _code accordingly", wire.py)
                            class PinInput(pyrtl.Input):
                                _code = 'P'
                            pin = PinInput(3, 'late_pin')
                            pin_o = pyrtl.Output(name='late_pin_o')
                            pin_o <<= pin + plain[0]
                            res.probes.hit('user_subclass_of_Input')
                        if hs % 4 == 1:
                            # one very wide concat (a bus assembled bit by bit)
                            src = plain[0]
                            wide = pyrtl.Output(name='late_wide')
                            wide <<= pyrtl.concat_list([src[i % len(src)] for i in range(256)])
                            res.probes.hit('concat_of_256_operands')
                    ab.block.sanity_check()
                    pyrtl.Simulation(tracer=pyrtl.SimulationTrace('all', block=ab.block), block=ab.block)
                    pyrtl.FastSimulation(tracer=pyrtl.SimulationTrace('all', block=ab.block), block=ab.block)
                    list(ab.block)
                except (pyrtl.PyrtlError, pyrtl.PyrtlInternalError, SyntaxError) as e:
                    return Violation('valid_design', 'design_extended_after_reset_working_block_rejected',
                                     {'exc': repr(e)[:300]}, ['positive', 'api', 'second_sitting'])
                res.probes.hit('second_sitting_after_reset')
        common.install_hash_seam(sched.get('hash_seed'))
        common.reset_world()
    res.probes.hit('iteration_schedules', len(case['scheds']))
    res.probes.hit('distinct_iteration_orders', len(orders))
    res.log.log('iter', 'orders', len(case['scheds']), len(orders))
    # ---- a design that is nothing but a combinational ring: no Input, no Const, no Register ----
    rk = 2 + (sched.get('hash_seed', 0) % 4)
    ring = pyrtl.Block()
    with pyrtl.set_working_block(ring, no_sanity_check=True):
        rw = [pyrtl.WireVector(1, 'ring%d' % i) for i in range(rk)]
        for i in range(rk):
            rw[(i + 1) % rk] <<= ~rw[i]
        ro = pyrtl.Output(1, 'ring_o')
        ro <<= rw[0]
    with transforms.quiet():
        verdict = judge(ring, bool(case.get('compiled')))
    res.faults.hit('comb_loop_without_sources')
    if verdict[0] == 'violation':
        return Violation('reject_malformed', verdict[1], dict(verdict[2], ring=rk),
                         ['fault:comb_loop_without_sources', 'where:' + verdict[2].get('where', '?')])
    # ---- negative half ------------------------------------------------------------------
    common.install_hash_seam(sched.get('hash_seed'))
    judged = []
    for si, site in enumerate(case['sites']):
        rng = random.Random((sched.get('hash_seed', 0) * 1000003 + si) & 0xffffffffffff)
        bb = build(script, perm_seed=sched.get('perm_seed'))
        if si % 3 == 1:
            # check, then mutate, then check: the block has already passed once
            bb.block.sanity_check()
            res.probes.hit('fault_after_passing_check')
        blk0 = bb.block
        snap = (set(blk0.logic), set(blk0.wirevector_set), dict(blk0.wirevector_by_name),
                {id(w): (w.name, w.bitwidth, getattr(w, '_block', None)) for w in blk0.wirevector_set})
        if si % 4 == 2:
            # the user switched debug mode on half way: only the wires made from here on carry a
            # recorded call stack
            # (one wire declared and left unconnected before the switch, so that the offending
            # wires of one report are of both kinds)
            with pyrtl.set_working_block(bb.block, no_sanity_check=True):
                pyrtl.WireVector(3, 'declared_early_%d' % si)
            pyrtl.set_debug_mode(True)
            res.probes.hit('debug_mode_switched_on_mid_build')
        try:
            want = inject(bb, script, site, rng)
        finally:
            pyrtl.set_debug_mode(False)
        if want is None:
            res.probes.hit('site_not_applicable')
            continue
        found = validate(bb.block)
        if want not in found and not (want == 'undriven_or_unconnected' and 'unconnected' in found):
            if found:
                want = sorted(found)[0]     # malformed, though in another class: still judged
            else:
                res.probes.hit('site_not_applicable')
                continue
        with transforms.quiet():
            verdict = judge(bb.block, case.get('compiled') and si % 5 == 0)
        cls = site['cls']
        if cls == 'comb_loop' and loop_is_sync_mem_addr(bb.block):
            cls = 'comb_loop_sync_mem_addr'
        res.faults.hit(site['cls'])
        res.probes.hit('judged:' + cls)
        res.log.log('fault', site['cls'], si, verdict[:2])
        judged.append(cls)
        if verdict[0] == 'violation':
            d = dict(verdict[2])
            d.update({'site': site, 'witness': sorted(found)})
            tags = ['fault:' + cls, 'where:' + d.get('where', '?')]
            if site['cls'] == 'op_param':
                tags.append('how:' + site['how'])
            return Violation('reject_malformed', verdict[1], d, tags)
        # ---- the user repairs the same Block in place (the injected nets / wires are taken out
        # again) and asks again: what the refusals left behind must not make a good design fail
        if si % 3 == 0 and bb.block is blk0 and all(
                (w.name, w.bitwidth, getattr(w, '_block', None)) == snap[3].get(id(w))
                for w in snap[1]):
            blk0.logic.clear()
            blk0.logic.update(snap[0])
            blk0.wirevector_set.clear()
            blk0.wirevector_set.update(snap[1])
            blk0.wirevector_by_name.clear()
            blk0.wirevector_by_name.update(snap[2])
            if not validate(blk0):
                try:
                    with transforms.quiet():
                        blk0.sanity_check()
                        for _n in blk0:
                            pass
                        pyrtl.Simulation(tracer=pyrtl.SimulationTrace('all', block=blk0), block=blk0)
                        pyrtl.FastSimulation(tracer=pyrtl.SimulationTrace('all', block=blk0), block=blk0)
                except (pyrtl.PyrtlError, pyrtl.PyrtlInternalError) as e:
                    return Violation('valid_design', 'repaired_block_rejected',
                                     {'exc': repr(e)[:300], 'site': site},
                                     ['fault:' + cls, 'repaired_in_place'])
                res.faults.hit('repaired_in_place_and_accepted')
            else:
                res.probes.hit('repair_not_clean')
    res.shape = hashlib.sha1(script_shape(script).encode()).hexdigest()[:12]
    res.sched = hashlib.sha1(repr(sorted(orders)[:50]).encode()).hexdigest()[:12]
    res.nontrivial = len(judged) > 0
    return None


def candidates(case):
    if len(case['sites']) > 1:
        for i in range(len(case['sites'])):
            c = copy.deepcopy(case)
            c['sites'] = [case['sites'][i]]
            yield c
    if len(case['scheds']) > 1:
        c = copy.deepcopy(case)
        c['scheds'] = case['scheds'][:1]
        yield c
        for i in range(len(case['scheds'])):
            c = copy.deepcopy(case)
            c['scheds'] = [case['scheds'][i]]
            yield c
    if case.get('api_prog'):
        c = copy.deepcopy(case)
        c['api_prog'] = None
        yield c
        from . import c17
        for st in case['api_prog']:
            try:
                p2 = c17.drop_statement(case['api_prog'], st['id'])
            except Exception:
                p2 = None
            if p2:
                c = copy.deepcopy(case)
                c['api_prog'] = p2
                yield c
    for s in shrink.script_candidates(case['script']):
        c = copy.deepcopy(case)
        c['script'] = s
        s.pop('_memremap', None)
        # sites refer to net indices: keep only sites that still make sense
        c['sites'] = [x for x in c['sites']
                      if ('net' not in x or x['net'] < len(s['nets']))
                      and ('wire' not in x or x['wire'] < len(s['wires']))]
        if c['sites'] or not case['sites']:
            yield c


def sample_of(case):
    return {'n_nets': len(case['script']['nets']),
            'nets': [[n['op'], n['a'], n['d']] for n in case['script']['nets'][:8]],
            'sites': case['sites'][:10], 'n_sites': len(case['sites']),
            'n_schedules': len(case['scheds'])}
