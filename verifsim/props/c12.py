"""C12 -- imported BLIF and ISCAS netlists compute the function the file defines.

World: generated BLIF text (1..3 models, .names covers over <= 6 inputs with 1..5 product
terms and don't-cares, constant covers, the special-cased gate shapes, .latch with every init
code, every supported $_DFF*/$_SDFF* cell with its E/S/R pins, nested .subckt instantiation,
outputs read internally, vector ports x[0..n-1]) imported with merge_io_vectors both ways,
passed as str and as file object; generated .bench text (INPUT/OUTPUT, AND/OR/NAND/NOR/XOR
with 2..4 inputs, NOT, BUFF, DFF, numeric names, an output named like an input).
Schedule: `reorder` -- commands within a model, models within the file and gate lines are
emitted in a scheduler-chosen order (BLIF and bench are declarative) -- plus the hash seed.
Oracle: BlifRef / BenchRef (own readers; flip-flop semantics decoded from the cell name per
the Yosys cell library, async pins sampled at the clock edge; latch init 2/3 admits both
values): Output traces equal per cycle under pyrtl.Simulation of the imported block.
"""
import copy
import hashlib
import io
import itertools
import random
import re

from .. import world, transforms, common
from ..common import Violation, HarnessError
from ..blifref import BlifRef, BenchRef

ID = 'C12'
LEVEL = 'exploration'
RUN_TIMEOUT_S = 60.0
MIN_BUDGET = 200

TIERS = {
    'quick': {'runs': 30000, 'classes': 8, 'budget_s': 60},
    'thorough': {'runs': 150000, 'classes': 32, 'budget_s': 1100},
}

DFF_NAMES = [
    '$_DFF_P_', '$_DFFE_PN_', '$_DFFE_PP_', '$_DFF_PP0_', '$_DFF_PP1_',
    '$_DFFE_PP0N_', '$_DFFE_PP0P_', '$_DFFE_PP1N_', '$_DFFE_PP1P_', '$_DFFSR_PPP',
    '$_DFFSRE_PPPN_', '$_DFFSRE_PPPP_', '$_SDFF_PN0_', '$_SDFF_PN1_', '$_SDFF_PP0_',
    '$_SDFF_PP1_', '$_SDFFE_PN0N_', '$_SDFFE_PN0P_', '$_SDFFE_PN1N_', '$_SDFFE_PN1P_',
    '$_SDFFE_PP0N_', '$_SDFFE_PP0P_', '$_SDFFE_PP1N_', '$_SDFFE_PP1P_', '$_SDFFCE_PN0N_',
    '$_SDFFCE_PN0P_', '$_SDFFCE_PN1N_', '$_SDFFCE_PN1P_', '$_SDFFCE_PP0N_', '$_SDFFCE_PP0P_',
    '$_SDFFCE_PP1N_', '$_SDFFCE_PP1P_',
]

SPECIAL_COVERS = {  # the shapes input_from_blif special-cases (n inputs -> rows)
    1: [[('1', '1')], [('0', '1')]],
    2: [[('11', '1')], [('1-', '1'), ('-1', '1')], [('0-', '1'), ('-0', '1')],
        [('10', '1'), ('01', '1')]],
    # two-row multiplexer covers as logic synthesis tools write them (Yosys, ABC), with the
    # select in each column and the rows in either order
    3: [[('1-0', '1'), ('-11', '1')], [('-11', '1'), ('1-0', '1')],
        [('01-', '1'), ('1-1', '1')], [('1-1', '1'), ('01-', '1')],
        [('0-1', '1'), ('11-', '1')], [('-01', '1'), ('1-0', '1')],
        [('-10', '1'), ('1-1', '1')], [('10-', '1'), ('0-1', '1')],
        [('11-', '1'), ('0-1', '1')], [('1-1', '1'), ('-10', '1')]],
}

COMPONENTS = {'real': ['input_from_blif (pyparsing grammar, extract_cover/latch/flop/'
                       'model_reference, io vector merging)', 'input_from_iscas_bench',
                       'pyrtl.Simulation of the imported block'],
              'stub': ['BlifRef / BenchRef readers and evaluators (verifsim/blifref.py)']}


# ---------------------------------------------------------------------------------------
# BLIF generation: a model is a dict; text is produced from it
# ---------------------------------------------------------------------------------------

def flop_pins(cell):
    from ..blifref import decode_flop
    f = decode_flop(cell)
    return (['C', 'D'] + (['E'] if f['epol'] else []) + ['Q'] + (['S'] if f['spol'] else [])
            + (['R'] if f['rpol'] else []))


def gen_model(rng, name, depth, lib, top):
    m = {'name': name, 'inputs': [], 'outputs': [], 'cmds': []}
    ctr = [0]

    def fresh(p='n'):
        ctr[0] += 1
        return '%s%s%d' % (name[0], p, ctr[0])

    if top:
        # vector ports x[0..n-1] and scalars
        for v in range(rng.randint(1, 3)):
            base = ['a', 'b', 'c'][v]
            if rng.random() < 0.15:
                # a row of a flattened 2-D port, or a scalar with a bracket in its name: only
                # a trailing [i] is a bit index
                base = rng.choice(['%s[1]' % base, '%s[0]' % base, '%s[2]_n' % base])
            n = rng.choice([1, 1, 2, 3, 4])
            if base.endswith(']'):
                n = max(n, 2)       # (a lone x[1][0] would be a one-bit vector port: not claimed)
            if v == 0 and rng.random() < 0.12:
                n = rng.choice([10, 11, 12, 13])     # indices with two digits
            if n == 1:
                m['inputs'].append(base)
            else:
                m['inputs'].extend('%s[%d]' % (base, i) for i in range(n))
        if rng.random() < 0.2:
            # an ordinary data input that carries a name some other design uses for its clock
            m['inputs'].append(rng.choice(['ck', 'gclk']))
    else:
        m['inputs'] = ['%si%d' % (name[0], i) for i in range(rng.randint(1, 3))]
    avail = list(m['inputs'])
    nflops = rng.choice([0, 0, 1, 2, 3])
    flops = []
    for _ in range(nflops):
        q = fresh('q')
        flops.append(q)
        avail.append(q)
    driven = []
    for _ in range(rng.randint(1, 7)):
        r = rng.random()
        if lib and r < 0.2:
            sub = rng.choice(lib)
            pins = []
            if sub['uses_clock']:
                pins.append(('clk', 'clk'))
            for f in sub['inputs']:
                if f == 'clk':
                    continue
                pins.append((f, rng.choice(avail)))
            for f in sub['outputs']:
                o = fresh('s')
                pins.append((f, o))
                driven.append(o)
                avail.append(o)
            rng.shuffle(pins)
            m['cmds'].append({'k': 'subckt', 'model': sub['name'], 'pins': pins})
            data_in = [f for f in sub['inputs'] if f != 'clk']
            if len(data_in) >= 2 and rng.random() < 0.35:
                # a second instance of the same model on the same nets, bound to its formals
                # the other way round
                act = dict(pins)
                rot = data_in[1:] + data_in[:1]
                pins2 = [('clk', 'clk')] if sub['uses_clock'] else []
                pins2 += [(f, act[g]) for f, g in zip(data_in, rot)]
                for f in sub['outputs']:
                    o = fresh('s')
                    pins2.append((f, o))
                    driven.append(o)
                    avail.append(o)
                m['cmds'].append({'k': 'subckt', 'model': sub['name'], 'pins': pins2})
            continue
        out = fresh()
        nin = rng.choice([0, 1, 1, 2, 2, 2, 3, 4, 5, 6]) if r > 0.25 else rng.choice([1, 2])
        nin = min(nin, len(avail))
        ins = [rng.choice(avail) for _ in range(nin)]
        if nin == 0:
            rows = [('', '1')] if rng.random() < 0.5 else []
        elif nin in SPECIAL_COVERS and rng.random() < 0.45:
            rows = rng.choice(SPECIAL_COVERS[nin])
        elif rng.random() < 0.06:
            rows = []                                    # empty cover with inputs: constant 0
        else:
            rows = []
            for _k in range(rng.randint(1, 5)):
                plane = ''.join(rng.choice('01-') for _ in range(nin))
                if nin >= 4 and rng.random() < 0.4:
                    plane = ''.join(rng.choice('01') for _ in range(nin))   # a full minterm
                if set(plane) == {'-'} and rng.random() < 0.8:
                    plane = rng.choice('01') + plane[1:]
                rows.append((plane, '1'))
        m['cmds'].append({'k': 'names', 'ins': ins, 'out': out, 'rows': [list(x) for x in rows]})
        driven.append(out)
        avail.append(out)
    uses_clock = False
    for q in flops:
        uses_clock = True
        if rng.random() < 0.3:
            m['cmds'].append({'k': 'latch', 'D': rng.choice(avail), 'Q': q,
                              'init': rng.choice(['0', '1', '2', '3', None])})
        else:
            cell = rng.choice(DFF_NAMES)
            pins = {}
            for p in flop_pins(cell):
                if p == 'C':
                    pins[p] = 'clk'
                elif p == 'Q':
                    pins[p] = q
                else:
                    pins[p] = rng.choice(avail)
            m['cmds'].append({'k': 'flop', 'cell': cell, 'pins': pins})
        driven.append(q)
    if any(c['k'] == 'subckt' and any(s['name'] == c['model'] and s['uses_clock'] for s in lib)
           for c in m['cmds']):
        uses_clock = True
    m['uses_clock'] = uses_clock
    if uses_clock:
        m['inputs'].append('clk')
    # outputs: driven signals (possibly read internally as well)
    nout = rng.randint(1, min(3, len(driven)))
    chosen = rng.sample(driven, nout)
    if top:
        # give outputs port-style names by buffering: o, or vector y[0..]
        outs = []
        if rng.random() < 0.3:
            # several output vectors (every output is a buffer, so signals may repeat)
            nout = rng.randint(4, 6)
            chosen = [rng.choice(driven) for _ in range(nout)]
            cut = rng.randint(2, nout - 2)
            names = ['y[%d]' % i for i in range(cut)] + ['z[%d]' % i for i in range(nout - cut)]
            if rng.random() < 0.5:
                names = names[cut:] + names[:cut]          # z listed before y in .outputs
        elif nout >= 2 and rng.random() < 0.6:
            names = ['y[%d]' % i for i in range(nout)]
        else:
            names = ['o%d' % i for i in range(nout)]
        for nm, src in zip(names, chosen):
            m['cmds'].append({'k': 'names', 'ins': [src], 'out': nm, 'rows': [['1', '1']]})
            outs.append(nm)
        # an output that is also read internally
        if rng.random() < 0.5 and outs:
            x = fresh('r')
            m['cmds'].append({'k': 'names', 'ins': [outs[0]], 'out': x, 'rows': [['0', '1']]})
            extra = 'oz'
            m['cmds'].append({'k': 'names', 'ins': [x], 'out': extra, 'rows': [['1', '1']]})
            outs.append(extra)
        m['outputs'] = outs
    else:
        m['outputs'] = chosen
    return m


def model_text(m, order, io_perm=None, cknames=None):
    # a sub-model may call its clock port something else than its parent calls its clock
    cknames = cknames or {}
    ck = cknames.get(m['name'], 'clk')
    ins, outs = [ck if i == 'clk' else i for i in m['inputs']], list(m['outputs'])
    if io_perm is not None:
        # the port lines in any order: x[2] is bit 2 wherever it is listed
        r = random.Random(io_perm)
        r.shuffle(ins)
        r.shuffle(outs)
    lines = ['.model ' + m['name'], '.inputs ' + ' '.join(ins),
             '.outputs ' + ' '.join(outs)]
    cmds = [m['cmds'][i] for i in order]
    for c in cmds:
        if c['k'] == 'names':
            lines.append('.names ' + ' '.join(c['ins'] + [c['out']]))
            for plane, outp in c['rows']:
                lines.append((plane + ' ' + outp).strip())
        elif c['k'] == 'latch':
            lines.append('.latch %s %s re %s%s' % (c['D'], c['Q'], ck,
                                                   (' ' + c['init']) if c['init'] is not None else ''))
        elif c['k'] == 'flop':
            lines.append('.subckt %s %s' % (c['cell'], ' '.join(
                '%s=%s' % (p, ck if p == 'C' else c['pins'][p])
                for p in ('C', 'D', 'E', 'Q', 'S', 'R') if p in c['pins'])))
        else:
            lines.append('.subckt %s %s' % (c['model'], ' '.join(
                '%s=%s' % ((cknames.get(c['model'], 'clk'), ck) if f_ == 'clk' else (f_, a_))
                for f_, a_ in c['pins'])))
    lines.append('.end')
    return '\n'.join(lines)


def gen_blif(rng):
    lib = []
    nsub = rng.choice([0, 0, 1, 2])
    for i in range(nsub):
        lib.append(gen_model(rng, ['sub', 'leaf'][i] if i < 2 else 'm%d' % i, 1, list(lib), False))
    top = gen_model(rng, 'top', 0, lib, True)
    used = set()

    def mark(m):
        for c in m['cmds']:
            if c['k'] == 'subckt' and c['model'] not in used:
                used.add(c['model'])
                mark([x for x in lib if x['name'] == c['model']][0])
    mark(top)
    for sub in lib:
        if sub['uses_clock'] and rng.random() < 0.4:
            sub['ckname'] = rng.choice(['ck', 'gclk'])
    spare = rng.random() < 0.4      # a model nobody instantiates stays in the file
    models = [top] + [m for m in lib if m['name'] in used or spare]
    return models


def gen_bench(rng):
    nin = rng.randint(1, 4)
    numeric = rng.random() < 0.4
    ins = [('%d' % (i + 1)) if numeric else 'G%d' % i for i in range(nin)]
    sigs = list(ins)
    lines = []
    gates = []
    ndff = rng.choice([0, 0, 1, 2])
    dffs = []
    for i in range(ndff):
        q = ('%d' % (100 + i)) if numeric else 'Q%d' % i
        dffs.append(q)
        sigs.append(q)
    binary_only = rng.random() < 0.6
    for i in range(rng.randint(1, 8)):
        name = ('%d' % (10 + i)) if numeric else 'N%d' % i
        g = rng.choice(['AND', 'OR', 'NAND', 'NOR', 'XOR', 'AND', 'OR', 'NOT', 'BUFF'])
        if g in ('NOT', 'BUFF'):
            srcs = [rng.choice(sigs)]
        else:
            srcs = [rng.choice(sigs) for _ in range(2 if binary_only else rng.choice([2, 2, 3, 4]))]
        gates.append([name, g, srcs])
        sigs.append(name)
    for q in dffs:
        gates.append([q, 'DFF', [rng.choice(sigs)]])
    driven = [g[0] for g in gates]
    outs = rng.sample(driven, rng.randint(1, min(3, len(driven))))
    same_as_input = rng.random() < 0.1
    return {'ins': ins, 'gates': gates, 'outs': outs, 'pass_through': ins[0] if same_as_input else None}


def bench_text(b, order):
    lines = ['# generated', ]
    for i in b['ins']:
        lines.append('INPUT(%s)' % i)
    for o in b['outs']:
        lines.append('OUTPUT(%s)' % o)
    if b.get('pass_through'):
        lines.append('OUTPUT(%s)' % b['pass_through'])
    lines.append('')
    for k in order:
        name, g, srcs = b['gates'][k]
        lines.append('%s = %s(%s)' % (name, g, ', '.join(srcs)))
    return '\n'.join(lines) + '\n'


def gen_case(streams, tier):
    g = streams['gen']
    s = streams['sched']
    ncyc = streams['inputs'].randint(2, 10)
    if g.random() < 0.3:
        b = gen_bench(g)
        order = list(range(len(b['gates'])))
        if s.random() < 0.7:
            s.shuffle(order)
        tape = [{i: streams['inputs'].randrange(2) for i in b['ins']} for _ in range(ncyc)]
        return {'prop': ID, 'fmt': 'bench', 'bench': b, 'order': order, 'tape': tape,
                'as_file': g.random() < 0.5, 'sched': world.gen_sched(streams, with_iter=False)}
    models = gen_blif(g)
    orders = []
    for m in models:
        o = list(range(len(m['cmds'])))
        if s.random() < 0.7:
            s.shuffle(o)
        orders.append(o)
    morder = list(range(len(models)))
    if s.random() < 0.4:
        s.shuffle(morder)
    ins = [i for i in models[0]['inputs'] if i != 'clk']
    tape = [{i: streams['inputs'].randrange(2) for i in ins} for _ in range(ncyc)]
    f = streams['faults']
    clock = 'clk'
    if f.random() < 0.35:
        used_names = set()
        for m_ in models:
            used_names.update(m_['inputs'])
            used_names.add(m_.get('ckname'))
        cands = [c for c in ('ck', 'gclk', 'clock') if c not in used_names]
        if cands:
            clock = f.choice(cands)
    fail_first = None
    if f.random() < 0.3:
        # a broken variant of the same file (one malformed cover at the end of one model) is
        # offered first and must be refused; the real import follows in the same process
        fail_first = {'model': f.randrange(len(models)), 'kind': f.choice(['offset', 'malrow'])}
    return {'prop': ID, 'fmt': 'blif', 'models': models, 'orders': orders, 'morder': morder,
            'merge': g.random() < 0.5, 'as_file': g.random() < 0.5, 'tape': tape,
            'fail_first': fail_first,
            'io_perm': f.getrandbits(32) if f.random() < 0.4 else None,
            # top_model left to its default (the first model listed) when 'top' is listed first
            'default_top': f.random() < 0.5,
            'clock': clock,
            'default_one': f.random() < 0.3,
            'sched': world.gen_sched(streams, with_iter=False)}


def blif_text(case, broken=None):
    parts = []
    for mi in case['morder']:
        t = model_text(case['models'][mi], case['orders'][mi],
                       case.get('io_perm') if mi == 0 else None,
                       {m_['name']: m_['ckname'] for m_ in case['models'] if m_.get('ckname')})
        if broken is not None and mi == broken['model'] % len(case['models']):
            m = case['models'][mi]
            src = (m['inputs'] + ['zz_x'])[0]
            bad = ['.names %s zz_bad' % src, '0 0' if broken['kind'] == 'offset' else '1 1 1']
            t = t[:-len('.end')] + '\n'.join(bad) + '\n.end'
        parts.append(t)
    text = '\n\n'.join(parts) + '\n'
    ck = case.get('clock') or 'clk'
    if ck != 'clk':
        text = re.sub(r'(?<![\w\[\].])clk(?![\w\[\].])', ck, text)
    return text


# ---------------------------------------------------------------------------------------

def run(case, res):
    import pyrtl
    world.setup_world(case['sched'])
    blk = pyrtl.Block()
    pyrtl.set_working_block(blk, no_sanity_check=True)
    if case['fmt'] == 'bench':
        return run_bench(case, res, blk)
    text = blif_text(case)
    top = case['models'][0]
    tags = ['blif', 'merge' if case['merge'] else 'unmerged'] + _feature_tags(case)
    # the reference(s): latch init codes 2/3 admit both values
    probe = BlifRef(text, top='top', clock=case.get('clock') or 'clk')
    nfree = probe.count_free_latches()
    if nfree > 3:
        return None
    if case.get('fail_first'):
        scratch = pyrtl.Block()
        pyrtl.set_working_block(scratch, no_sanity_check=True)
        try:
            with transforms.quiet():
                pyrtl.input_from_blif(blif_text(case, case['fail_first']), block=scratch,
                                      merge_io_vectors=case['merge'], top_model='top',
                                      clock_name=case.get('clock') or 'clk')
        except pyrtl.PyrtlError:
            res.faults.hit('malformed_file_refused_first')
        else:
            raise common.Inconclusive('the malformed BLIF was accepted')
        finally:
            pyrtl.set_working_block(blk, no_sanity_check=True)
    try:
        src = io.StringIO(text) if case['as_file'] else text
        with transforms.quiet():
            if case.get('default_top') and case['morder'][0] == 0:
                pyrtl.input_from_blif(src, block=blk, merge_io_vectors=case['merge'],
                                      clock_name=case.get('clock') or 'clk')
                res.probes.hit('top_model_defaulted')
            else:
                pyrtl.input_from_blif(src, block=blk, merge_io_vectors=case['merge'], top_model='top',
                                      clock_name=case.get('clock') or 'clk')
        blk.sanity_check()
        # (a latch with init code 0 or none starts at 0 whatever the simulator's default_value is;
        # codes 2 and 3 are don't-cares and both start values are admitted below; the $_DFF cells
        # have no initial value in the file at all, so designs with them keep default_value 0)
        sim = pyrtl.Simulation(tracer=pyrtl.SimulationTrace(block=blk), block=blk,
                               default_value=1 if (case.get('default_one') and not any(
                                   c['k'] == 'flop' for m_ in case['models'] for c in m_['cmds'])) else 0)
    except Exception as e:
        return Violation('import', 'raises_on_supported_netlist', {'exc': repr(e)[:300], 'text': text[:1500]}, tags)
    res.log.log('import', 'blif', len(text), len(blk.logic))
    ins = [i for i in top['inputs'] if i != 'clk']
    outs = top['outputs']

    def pack(names, bits):
        """per-bit values -> PyRTL port values according to the merge setting"""
        groups = {}
        for n in names:
            mm = re.match(r'^(.*)\[(\d+)\]$', n)
            base = mm.group(1) if mm else n
            groups.setdefault(base, []).append(n)
        out = {}
        for base, ns in groups.items():
            if len(ns) == 1 and ns[0] == base:
                out[base] = bits[base]
            elif len(ns) == 1:
                # a single x[0]: the importer strips the index of a 1-wide vector
                out[base] = bits[ns[0]]
            elif case['merge']:
                out[base] = sum(bits['%s[%d]' % (base, i)] << i for i in range(len(ns)))
            else:
                for n in ns:
                    out[n] = bits[n]
        return out

    rows = []
    for cyc in case['tape']:
        try:
            sim.step(pack(ins, cyc))
        except Exception as e:
            return Violation('import', 'imported_block_cannot_be_stepped', {'exc': repr(e)[:300], 'text': text[:1500]}, tags)
        rows.append({k: sim.inspect(k) for k in pack(outs, {o: 0 for o in outs})})
        res.cycles += 1
    ok = False
    first_bad = None
    for choice in itertools.product((0, 1), repeat=nfree):
        ref = BlifRef(text, top='top', clock=case.get('clock') or 'clk', latch_choice=list(choice))
        good = True
        for ci, cyc in enumerate(case['tape']):
            exp = pack(outs, ref.step(dict(cyc)))
            if exp != rows[ci]:
                good = False
                if first_bad is None:
                    first_bad = {'cycle': ci, 'expected': exp, 'got': rows[ci]}
                break
        if good:
            ok = True
            break
    if not ok:
        first_bad['text'] = text[:2000]
        return Violation('function', 'output_mismatch', first_bad, tags)
    for c in _all_cmds(case):
        if c['k'] == 'flop':
            res.probes.hit('cell:' + c['cell'])
        elif c['k'] == 'latch':
            res.probes.hit('latch_init:%s' % c['init'])
        elif c['k'] == 'subckt':
            res.probes.hit('subckt')
    res.probes.hit('as_file' if case['as_file'] else 'as_str')
    res.shape = hashlib.sha1(repr(sorted((c['k'], len(c.get('ins', []))) for c in _all_cmds(case))).encode()).hexdigest()[:12]
    res.sched = hashlib.sha1(repr([case['orders'], case['morder']]).encode()).hexdigest()[:12]
    res.faults.hit('reorder')
    res.nontrivial = True
    return None


def _all_cmds(case):
    for m in case['models']:
        for c in m['cmds']:
            yield c


def _feature_tags(case):
    t = set()
    for c in _all_cmds(case):
        if c['k'] == 'names' and not c['rows'] and c['ins']:
            t.add('empty_cover_with_inputs')
        if c['k'] == 'names' and any(r[0] and set(r[0]) == {'-'} for r in c['rows']):
            t.add('all_dont_care_row')
        if c['k'] == 'subckt':
            t.add('subckt')
    return sorted(t)


def run_bench(case, res, blk):
    import pyrtl
    b = case['bench']
    text = bench_text(b, case['order'])
    tags = ['bench']
    if any(len(g[2]) > 2 for g in b['gates']):
        tags.append('gate_with_more_than_2_inputs')
    if b.get('pass_through'):
        tags.append('output_named_like_input')
    try:
        src = io.StringIO(text) if case['as_file'] else text
        with transforms.quiet():
            pyrtl.input_from_iscas_bench(src, block=blk)
        blk.sanity_check()
        sim = pyrtl.Simulation(tracer=pyrtl.SimulationTrace('all', block=blk), block=blk)
    except Exception as e:
        return Violation('import', 'raises_on_supported_netlist', {'exc': repr(e)[:300], 'text': text[:1500]}, tags)
    ref = BenchRef(text)
    outnames = sorted(w.name for w in blk.wirevector_subset(pyrtl.Output))
    renamed = [n for n in outnames if n not in ref.outputs]
    for ci, cyc in enumerate(case['tape']):
        sim.step(dict(cyc))
        exp = ref.step(dict(cyc))
        res.cycles += 1
        for o in ref.outputs:
            if o == b.get('pass_through'):
                if len(renamed) != 1:
                    return Violation('function', 'pass_through_output_missing', {'outputs': outnames, 'text': text}, tags)
                got = sim.inspect(renamed[0])
            else:
                got = sim.inspect(o)
            if got != exp[o]:
                t2 = [t for t in tags if t != 'gate_with_more_than_2_inputs']
                wide = _fanin_wide_gate(ref, o)
                if wide:
                    t2.append('fanin:gate_with_more_than_2_inputs')
                return Violation('function', 'output_mismatch',
                                 {'output': o, 'cycle': ci, 'expected': exp[o], 'got': got,
                                  'gate': ref.gates.get(o), 'wide_gate_in_fanin': wide,
                                  'text': text[:1500]}, t2)
    for g in b['gates']:
        res.probes.hit('gate:%s:%d' % (g[1], len(g[2])))
    res.shape = hashlib.sha1(repr(sorted((g[1], len(g[2])) for g in b['gates'])).encode()).hexdigest()[:12]
    res.sched = hashlib.sha1(repr(case['order']).encode()).hexdigest()[:12]
    res.faults.hit('reorder')
    res.nontrivial = True
    return None


def _fanin_wide_gate(ref, out):
    """A gate with more than two inputs upstream of `out` (through DFFs too), or None."""
    seen = set()
    todo = [out]
    while todo:
        s = todo.pop()
        if s in seen or s not in ref.gates:
            continue
        seen.add(s)
        kind, srcs = ref.gates[s]
        if kind not in ('NOT', 'BUFF', 'DFF') and len(srcs) > 2:
            return [s, kind, srcs]
        todo.extend(srcs)
    return None


def candidates(case):
    tape = case['tape']
    if case.get('fail_first'):
        c = copy.deepcopy(case)
        c['fail_first'] = None
        yield c
    for k in range(len(tape) - 1, 0, -1):
        c = copy.deepcopy(case)
        c['tape'] = tape[:k]
        yield c
    if case['fmt'] == 'bench':
        b = case['bench']
        for i in range(len(b['gates']) - 1, -1, -1):
            name = b['gates'][i][0]
            if any(name in g[2] for j, g in enumerate(b['gates']) if j != i):
                continue
            if name in b['outs'] and len(b['outs']) == 1:
                continue
            c = copy.deepcopy(case)
            del c['bench']['gates'][i]
            c['bench']['outs'] = [o for o in c['bench']['outs'] if o != name]
            c['order'] = list(range(len(c['bench']['gates'])))
            yield c
        for i, g in enumerate(b['gates']):
            if len(g[2]) > 2:
                c = copy.deepcopy(case)
                c['bench']['gates'][i][2] = g[2][:-1]
                yield c
        if b.get('pass_through'):
            c = copy.deepcopy(case)
            c['bench']['pass_through'] = None
            yield c
        return
    # blif: canonical order, then drop commands whose outputs nobody needs
    if any(o != sorted(o) for o in case['orders']) or case['morder'] != sorted(case['morder']):
        c = copy.deepcopy(case)
        c['orders'] = [sorted(o) for o in case['orders']]
        c['morder'] = sorted(case['morder'])
        yield c
    for mi, m in enumerate(case['models']):
        for ci in range(len(m['cmds']) - 1, -1, -1):
            cmd = m['cmds'][ci]
            outs = [cmd['out']] if cmd['k'] == 'names' else \
                ([cmd['Q']] if cmd['k'] == 'latch' else
                 ([cmd['pins']['Q']] if cmd['k'] == 'flop' else None))
            if outs is None:
                continue
            read = set()
            for j, other in enumerate(m['cmds']):
                if j == ci:
                    continue
                if other['k'] == 'names':
                    read.update(other['ins'])
                elif other['k'] == 'latch':
                    read.add(other['D'])
                elif other['k'] == 'flop':
                    read.update(v for p, v in other['pins'].items() if p in 'DESR')
                else:
                    read.update(a for f, a in other['pins'])
            if outs[0] in read or outs[0] in m['outputs']:
                # replace by a constant-0 cover instead of deleting
                if cmd['k'] == 'names' and cmd['ins'] == [] and cmd['rows'] == []:
                    continue
                c = copy.deepcopy(case)
                c['models'][mi]['cmds'][ci] = {'k': 'names', 'ins': [], 'out': outs[0], 'rows': []}
                yield c
            else:
                c = copy.deepcopy(case)
                del c['models'][mi]['cmds'][ci]
                c['orders'][mi] = list(range(len(c['models'][mi]['cmds'])))
                yield c
        for ci, cmd in enumerate(m['cmds']):
            if cmd['k'] == 'names' and len(cmd['rows']) > 1:
                for ri in range(len(cmd['rows'])):
                    c = copy.deepcopy(case)
                    del c['models'][mi]['cmds'][ci]['rows'][ri]
                    yield c


def sample_of(case):
    if case['fmt'] == 'bench':
        return {'fmt': 'bench', 'text': bench_text(case['bench'], case['order'])[:600], 'tape': case['tape'][:2]}
    return {'fmt': 'blif', 'merge': case['merge'], 'as_file': case['as_file'],
            'text': blif_text(case)[:900], 'tape': case['tape'][:2]}
