"""C20 -- exports are deterministic and read-only with respect to behaviour.

(a) Determinism across schedules: one script is built K times under different hash seeds,
statement orders and allocation noise (in-process, through the hash seam) and, for a
fraction of runs and for every in-process difference, again in plain subprocesses (real
id() hashing, no seam) under other PYTHONHASHSEED values; the bytes of output_to_verilog,
output_verilog_testbench, print_vcd, print_trace and the simulation traces must be equal.
(b) Passes: under the same K schedules synthesize/optimize results may differ in naming but
their Output traces equal RefSim of the script.
(c) Read-only: around every export, visualisation, analysis and trace-rendering call the
structural fingerprint is unchanged (output_to_firrtl excepted) and the Output traces from
reset equal RefSim of the script. writer_fault: the file object handed to an export raises
OSError on its k-th write (k swept); the error must propagate and the block must behave as
before.
"""
import copy
import hashlib
import io
import json
import os
import subprocess

from .. import gen, shrink, world, transforms, common
from ..common import Violation, HarnessError, PY, VERIF_DIR, REPO_DIR
from ..netlist import build, Netlist, script_shape
from .. import render

ID = 'C20'
LEVEL = 'exploration'
RUN_TIMEOUT_S = 120.0
MIN_BUDGET = 150

TIERS = {
    'quick': {'runs': 5000, 'classes': 8, 'budget_s': 60},
    'thorough': {'runs': 150000, 'classes': 32, 'budget_s': 1100},
}

COMPONENTS = {'real': ['output_to_verilog', 'output_verilog_testbench', 'print_vcd', 'print_trace',
                       'output_to_firrtl', 'block_to_graphviz_string', 'output_to_trivialgraph',
                       'net_graph', 'str(block)', 'TimingAnalysis', 'area_estimation', 'paths',
                       'fanout', 'synthesize', 'optimize', 'the three simulators'],
              'stub': ['RefSim', 'structural fingerprint', 'FaultyWriter (failing file object)']}

TEXTS = ['verilog', 'testbench', 'testbench_bare', 'vcd', 'print_trace_10_n', 'print_trace_10_c',
         'print_trace_16_n', 'print_trace_16_c', 'trace']


def gen_case(streams, tier):
    g = streams['gen']
    cfg = gen.make_cfg(nets=(2, 12), ops='w~&|^+-*<>=xcs', names='awkward', awk_internal=0.4,
                       awk_exclude=('tmp', 'é'),
                       class_pool=['bit', 'small', 'mid', 'w64'],
                       mem_wide_aw=0.0, mem_aw=(1, 4), rom_aw_max=3, regs=(0, 3), roms=(0, 2),
                       two_write_ports=0.4, const_quote_prob=0.4, awk_pair_prob=0.3)
    script = gen.gen_script(g, cfg)
    # (not copy / optimized copy: they create MemBlocks, and the process-wide memory id counter,
    # which names the Verilog arrays, is not something the property holds constant)
    script, stage = gen.maybe_stage(g, script, 0.25, ['sim', 'fast', 'export', 'analysis'])
    # Verilog-string constants: their auto-generated name contains a quote
    ncyc = streams['inputs'].randint(2, 6)
    kind = g.choice(['sim', 'sim', 'fast', 'compiled'] if g.random() < 0.3 else ['sim', 'fast'])
    init = gen.gen_init(g, script, allow_default=(kind != 'compiled'))
    s = streams['sched']
    K = 4 if tier == 'quick' else s.choice([4, 8, 16])
    scheds = [{'hash_seed': s.getrandbits(48), 'perm_seed': s.getrandbits(32),
               'noise': s.choice([0, 2, 5])} for _ in range(K)]
    f = streams['faults']
    blif = None
    if f.random() < (0.05 if tier == 'quick' else 0.08):
        # the same design may also come out of the BLIF importer: rendered in plain processes
        # under different PYTHONHASHSEEDs (string hashing cannot be varied inside one process)
        from . import c12
        for _ in range(4):
            c12case = c12.gen_case(streams, tier)
            if c12case.get('fmt') == 'blif':
                c12case['clock'] = 'clk'       # (render imports with the default clock name)
                blif = {'text': c12.blif_text(c12case), 'seeds': [f.randrange(1, 1000) for _ in range(3)]}
                break
    return {'prop': ID, 'script': script, 'init': init, 'kind': kind, 'blif': blif,
            'add_reset': g.choice([True, False, 'asynchronous']),
            'cycles': gen.gen_inputs(streams['inputs'], script, ncyc),
            'scheds': scheds,
            'subprocess': [f.randrange(1, 1000), f.randrange(1, 1000)] if f.random() < (0.04 if tier == 'quick' else 0.08) else None,
            'writer_faults': [f.randrange(0, 40) for _ in range(3)],
            'passes': g.random() < 0.3,
            'small_for_passes': None,
            'stage': stage,
            'sched': world.gen_sched(streams, with_iter=False)}


def render_subprocess(case, pyhashseed, noise_seed):
    env = dict(os.environ)
    env['PYTHONHASHSEED'] = str(pyhashseed)
    env['PYTHONPATH'] = REPO_DIR + ':' + VERIF_DIR
    env.pop('PYRTL_VERIF', None)
    job = {'script': case['script'], 'init': case['init'], 'cycles': case['cycles'],
           'kind': case['kind'], 'add_reset': case['add_reset'], 'noise_seed': noise_seed,
           'perm_seed': noise_seed, 'noise': 3}
    p = subprocess.run([PY, '-m', 'verifsim.render'], input=json.dumps(job).encode(), env=env,
                       cwd=VERIF_DIR, stdout=subprocess.PIPE, stderr=subprocess.PIPE, timeout=90)
    if p.returncode != 0:
        raise HarnessError('render subprocess failed: ' + p.stderr.decode()[-600:])
    return json.loads(p.stdout.decode())


def first_diff(a, b):
    la, lb = a.split('\n'), b.split('\n')
    for i, (x, y) in enumerate(zip(la, lb)):
        if x != y:
            return {'line': i, 'a': x[:160], 'b': y[:160]}
    return {'line': min(len(la), len(lb)), 'a': '<len %d>' % len(la), 'b': '<len %d>' % len(lb)}


def name_tags(script):
    """Which of the known order-sensitive ingredients does the design contain?"""
    import re
    valid = re.compile(r'^[_A-Za-z][_a-zA-Z0-9$]*$')
    names = [w['n'] for w in script['wires']]
    nsan = sum(1 for n in names if not valid.match(n) or n in ('wire', 'reg', 'always', 'assign',
                                                             'module', 'input', 'output', 'begin', 'end'))
    tags = []
    if nsan >= 2:
        tags.append('two_or_more_names_need_sanitising')
    keyf = lambda n: [int(c) if c.isdigit() else c for c in re.split('([0-9]+)', n)]
    keys = {}
    for n in names:
        keys.setdefault(repr(keyf(n)), []).append(n)
    if any(len(v) > 1 for v in keys.values()):
        tags.append('natural_sort_key_tie')
    return tags


def run(case, res):
    import pyrtl
    script = case['script']
    init = case['init']
    sched = case['sched']
    world.setup_world(sched)
    ntags = name_tags(script)
    # same-cycle double writes are documented undefined (and order dependent): cut the tape
    from ..refsim import DoubleWrite
    for initx in (init, {}):
        refx = world.ref_for(script, initx)
        for ci, cyc in enumerate(case['cycles']):
            try:
                refx.step(cyc)
            except DoubleWrite:
                res.probes.hit('undefined_double_write')
                case = dict(case, cycles=case['cycles'][:ci])
                break
    if not case['cycles']:
        return None
    # ---- (a0) a BLIF-sourced design in plain processes under several PYTHONHASHSEEDs -------------
    if case.get('blif'):
        outs_b = []
        for phs in case['blif']['seeds']:
            env = dict(os.environ)
            env['PYTHONHASHSEED'] = str(phs)
            env['PYTHONPATH'] = REPO_DIR + ':' + VERIF_DIR
            env.pop('PYRTL_VERIF', None)
            p = subprocess.run([PY, '-m', 'verifsim.render'],
                               input=json.dumps({'blif': case['blif']['text'], 'merge': True}).encode(),
                               env=env, cwd=VERIF_DIR, stdout=subprocess.PIPE, stderr=subprocess.PIPE,
                               timeout=90)
            if p.returncode != 0:
                res.probes.hit('blif_render_refused')
                outs_b = []
                break
            outs_b.append(json.loads(p.stdout.decode()))
            res.faults.hit('other_process')
        for o in outs_b[1:]:
            for name in ('verilog', 'trace'):
                if o[name] != outs_b[0][name]:
                    return Violation('determinism', 'text_differs_between_processes',
                                     {'channel': name, 'source': 'input_from_blif',
                                      'pythonhashseeds': case['blif']['seeds'],
                                      'diff': first_diff(outs_b[0][name], o[name])},
                                     ['channel:' + name, 'source:blif'])
        if outs_b:
            res.probes.hit('blif_sourced_design_rendered')
    # ---- (a) K in-process builds ---------------------------------------------------------
    base = None
    base_k = None
    for k, sc in enumerate(case['scheds']):
        common.install_hash_seam(sc['hash_seed'])
        common.reset_world()
        staged = bool(case.get('stage')) and k == len(case['scheds']) - 1
        # the last build reaches the same design through another history: the design is used
        # (simulated, exported, analysed, copied) when half built, then completed
        b = build(script, perm_seed=sc['perm_seed'], noise=sc['noise'],
                  stage=world.stage_with_hook(case.get('stage'), res) if staged else None)
        try:
            texts = render.render_all(b, init, case['cycles'], case['kind'], case['add_reset'])
        except pyrtl.PyrtlError as e:
            res.probes.hit('export_refused')
            return None
        res.log.log('render', 'schedule', k, hashlib.sha1(texts['verilog'].encode()).hexdigest()[:8])
        if base is None:
            base, base_k = texts, k
            continue
        for name in TEXTS:
            if texts[name] != base[name]:
                d = first_diff(base[name], texts[name])
                # confirm in plain subprocesses before believing it
                confirmed = None
                try:
                    outs = [render_subprocess(case, 100 + j, 1000 + j)[name] for j in range(6)]
                    confirmed = len(set(outs)) > 1
                except HarnessError:
                    confirmed = None
                return Violation('determinism', 'text_differs_between_schedules',
                                 {'channel': name, 'schedules': [base_k, k], 'diff': d,
                                  'confirmed_in_unpatched_subprocesses': confirmed},
                                 ['channel:' + name.split('_')[0] if name.startswith('print') else 'channel:' + name]
                                 + ntags + (['confirmed'] if confirmed else ['unconfirmed'])
                                 + (['history:staged_build'] if staged else []))
    res.cycles += len(case['cycles']) * len(case['scheds'])
    res.probes.hit('inprocess_schedules', len(case['scheds']))
    if case.get('subprocess'):
        for phs in case['subprocess']:
            other = render_subprocess(case, phs, phs * 7 + 1)
            res.faults.hit('other_process')
            for name in TEXTS:
                if other[name] != base[name]:
                    return Violation('determinism', 'text_differs_between_processes',
                                     {'channel': name, 'pythonhashseed': phs,
                                      'diff': first_diff(base[name], other[name])},
                                     ['channel:' + name] + ntags)
    # ---- (c) read-only calls -------------------------------------------------------------
    common.install_hash_seam(sched.get('hash_seed'))
    common.reset_world()
    b = build(script, perm_seed=sched.get('perm_seed'))
    blk = b.block
    nl = Netlist.from_script(script)
    outs = nl.outputs()
    tape = case['cycles']
    exp_rows, n_ok, _ = transforms.ref_trace(nl, {}, tape, outs)
    pyrtl.set_working_block(blk, no_sanity_check=True)
    sim = pyrtl.Simulation(tracer=pyrtl.SimulationTrace('all', block=blk), block=blk)
    for cyc in tape[:n_ok]:
        sim.step(dict(cyc))
    tr = sim.tracer
    somewire = sorted(blk.wirevector_set, key=lambda w: w.name)
    ins = [w for w in somewire if isinstance(w, pyrtl.Input)]
    outw = [w for w in somewire if isinstance(w, pyrtl.Output)]
    calls = [
        ('output_to_verilog', lambda f: pyrtl.output_to_verilog(f, add_reset=case['add_reset'], block=blk)),
        ('output_verilog_testbench', lambda f: pyrtl.output_verilog_testbench(
            f, tr, vcd=None, add_reset=case['add_reset'], block=blk)),
        ('print_vcd', lambda f: tr.print_vcd(f)),
        ('print_trace', lambda f: tr.print_trace(f)),
        ('render_trace', lambda f: tr.render_trace(file=f)),
        ('output_to_trivialgraph', lambda f: pyrtl.output_to_trivialgraph(f, block=blk)),
        ('block_to_graphviz_string', lambda f: f.write(pyrtl.block_to_graphviz_string(blk))),
        ('net_graph', lambda f: f.write(str(len(pyrtl.net_graph(blk))))),
        ('str', lambda f: f.write(str(blk))),
        ('TimingAnalysis', lambda f: f.write(str(pyrtl.TimingAnalysis(block=blk).max_length()))),
        ('area_estimation', lambda f: f.write(str(pyrtl.area_estimation(block=blk)))),
        ('fanout', lambda f: f.write(str([pyrtl.fanout(w) for w in somewire if not isinstance(w, pyrtl.Output)]))),
    ]
    if ins and outw:
        calls.append(('paths', lambda f: f.write(str(len(pyrtl.paths(ins[0], outw[0], block=blk) or [])))))
    roms = [m for m in b.mems if isinstance(m, pyrtl.RomBlock)]
    all_rom = roms and len(roms) == len(b.mems) and \
        all(m.get('rom') and m['rom']['kind'] in ('list', 'func') and not m['rom'].get('pad')
            for m in script['mems'])
    if all_rom and case['writer_faults'][0] % 2 == 0:
        # the documented rom_blocks argument (ROM contents are materialised by the export)
        calls.append(('output_to_firrtl', lambda f: pyrtl.output_to_firrtl(f, rom_blocks=roms, block=blk)))
        res.probes.hit('firrtl_with_rom_blocks')
    else:
        calls.append(('output_to_firrtl', lambda f: pyrtl.output_to_firrtl(f, block=blk)))
    fp0 = transforms.fingerprint(blk)

    def behaves():
        nl2, _live = transforms.block_netlist(blk)
        try:
            rows, n, _ = transforms.ref_trace(nl2, {}, tape[:n_ok], outs)
        except HarnessError as e:
            if 'combinational loop' in str(e) or 'undriven' in str(e) or 'two drivers' in str(e):
                return (0, 'block can no longer be evaluated: %s' % e, None, None)
            raise
        return transforms.compare_rows(exp_rows, rows, outs, min(n, n_ok))

    wf = list(case['writer_faults'])
    wfi = 0
    for name, fn in calls:
        if name == 'print_trace' and wf and wf[0] % 2 == 1:
            # the same trace is first printed in other bases and layouts; the print that counts
            # must equal that of a twin trace printed once
            sim_t = pyrtl.Simulation(tracer=pyrtl.SimulationTrace('all', block=blk), block=blk)
            for cyc in tape[:n_ok]:
                sim_t.step(dict(cyc))
            t_buf, m_buf = io.StringIO(), io.StringIO()
            try:
                for base_, comp_ in ((2, False), (16, True), (8, False)):
                    tr.print_trace(io.StringIO(), base=base_, compact=comp_)
                sim_t.tracer.print_trace(t_buf)
                fn(m_buf)
            except (pyrtl.PyrtlError, pyrtl.PyrtlInternalError):
                res.probes.hit('call_refused:' + name)
            else:
                res.faults.hit('printed_in_other_bases_first')
                if t_buf.getvalue() != m_buf.getvalue():
                    return Violation('determinism', 'text_depends_on_earlier_prints',
                                     {'call': name, 'diff': first_diff(t_buf.getvalue(), m_buf.getvalue())},
                                     ['call:' + name, 'history:print_print'])
        if name in ('print_vcd', 'print_trace') and wf and wf[0] % 2 == 0:
            # the very first dump of this trace object is the one that fails; the dump after
            # it must equal the dump of a twin trace that never saw a failure
            sim_t = pyrtl.Simulation(tracer=pyrtl.SimulationTrace('all', block=blk), block=blk)
            for cyc in tape[:n_ok]:
                sim_t.step(dict(cyc))
            # where the failure lands: anywhere in the dump, the header included (the number
            # of writes of a whole dump is measured on the twin)
            cnt = world.FaultyWriter(None)
            try:
                if name == 'print_vcd':
                    sim_t.tracer.print_vcd(cnt)
                else:
                    sim_t.tracer.print_trace(cnt)
            except (pyrtl.PyrtlError, pyrtl.PyrtlInternalError):
                pass
            fw0 = world.FaultyWriter(wf[1 % len(wf)] * 7919 % max(1, cnt.nwrites))
            try:
                fn(fw0)
            except OSError:
                res.faults.hit('writer_fault_on_first_dump')
            except (pyrtl.PyrtlError, pyrtl.PyrtlInternalError):
                pass
            t_buf, m_buf = io.StringIO(), io.StringIO()
            try:
                if name == 'print_vcd':
                    sim_t.tracer.print_vcd(t_buf)
                else:
                    sim_t.tracer.print_trace(t_buf)
                fn(m_buf)
            except (pyrtl.PyrtlError, pyrtl.PyrtlInternalError):
                res.probes.hit('call_refused:' + name)
            else:
                if t_buf.getvalue() != m_buf.getvalue():
                    return Violation('writer_fault', 'text_differs_after_failed_first_dump',
                                     {'call': name, 'diff': first_diff(t_buf.getvalue(), m_buf.getvalue())},
                                     ['call:' + name])
        buf = io.StringIO()
        try:
            with transforms.quiet():
                fn(buf)
        except (pyrtl.PyrtlError, pyrtl.PyrtlInternalError) as e:
            res.probes.hit('call_refused:' + name)
            refused = True
        except HarnessError:
            raise
        except Exception as e:
            # an export that crashes is not C20's business; what it leaves behind is
            res.probes.hit('call_crashed:' + name)
            refused = True
        else:
            refused = False
        res.log.log('call', name, None, refused)
        res.probes.hit('call:' + name)
        s = transforms.sanity(blk)
        if s:
            return Violation('read_only', 'block_malformed_after_call', {'call': name, 'exc': s}, ['call:' + name])
        if name != 'output_to_firrtl' and transforms.fingerprint(blk) != fp0:
            return Violation('read_only', 'block_structure_changed', {'call': name}, ['call:' + name])
        d = behaves()
        if d:
            return Violation('read_only', 'behaviour_changed',
                             {'call': name, 'output': d[1], 'cycle': d[0]}, ['call:' + name])
        # writer fault: the k-th write raises
        if name in ('output_to_verilog', 'output_verilog_testbench', 'print_vcd', 'print_trace',
                    'output_to_trivialgraph', 'output_to_firrtl') and not refused and wf:
            wfi += 1
            nl = buf.getvalue().count('\n')
            if wf[wfi % len(wf)] % 2:
                k = wf[wfi % len(wf)] % max(1, min(40, nl))
            else:
                # anywhere in the text (print() writes the line and its newline separately), so
                # that the later sections of an export -- ROM images, always blocks -- are reached
                k = (wf[wfi % len(wf)] * 7919) % max(1, 2 * nl)
            fw = world.FaultyWriter(k)
            try:
                fn(fw)
            except OSError:
                res.faults.hit('writer_fault')
            except (pyrtl.PyrtlError, pyrtl.PyrtlInternalError):
                pass
            else:
                if fw.nwrites > k:
                    return Violation('writer_fault', 'io_error_swallowed', {'call': name, 'k': k},
                                     ['call:' + name])
            s = transforms.sanity(blk)
            if s:
                return Violation('writer_fault', 'block_malformed_after_failed_export',
                                 {'call': name, 'k': k, 'exc': s}, ['call:' + name])
            if name != 'output_to_firrtl' and transforms.fingerprint(blk) != fp0:
                return Violation('writer_fault', 'block_structure_changed_by_failed_export',
                                 {'call': name, 'k': k}, ['call:' + name])
            d = behaves()
            if d:
                return Violation('writer_fault', 'behaviour_changed_by_failed_export',
                                 {'call': name, 'k': k}, ['call:' + name])
            if name != 'output_to_firrtl':
                # the retry with a good file object: the same bytes as before the failure
                again = io.StringIO()
                try:
                    with transforms.quiet():
                        fn(again)
                except (pyrtl.PyrtlError, pyrtl.PyrtlInternalError) as e:
                    return Violation('writer_fault', 'retry_after_failed_export_refused',
                                     {'call': name, 'k': k, 'exc': repr(e)[:200]}, ['call:' + name])
                if again.getvalue() != buf.getvalue():
                    return Violation('writer_fault', 'text_differs_after_failed_export',
                                     {'call': name, 'k': k,
                                      'diff': first_diff(buf.getvalue(), again.getvalue())},
                                     ['call:' + name])
                res.probes.hit('retry_after_writer_fault_identical')
    # ---- export, rename, export: the text must not depend on what was exported before -------
    plainw = sorted((w['n'] for w in script['wires'] if w['k'] in 'WR'), key=str)
    if plainw and not any(n == 'output_to_firrtl' and not True for n, _f in calls):
        import re as _re
        victim = plainw[case['writer_faults'][1] % len(plainw)]
        newname = 'a0_renamed' if case['writer_faults'][2] % 2 else 'zz_renamed'
        if newname not in [w['n'] for w in script['wires']]:
            script2 = json.loads(json.dumps(script).replace(json.dumps(victim), json.dumps(newname))) \
                if False else None
            # rename by structure, not by text
            script2 = copy.deepcopy(script)
            for w in script2['wires']:
                if w['n'] == victim:
                    w['n'] = newname
            for n in script2['nets']:
                n['a'] = [newname if x == victim else x for x in n['a']]
                n['d'] = [newname if x == victim else x for x in n['d']]
            # history A: a block that was exported (above), then one wire renamed, exported again
            common.install_hash_seam(sched.get('hash_seed'))
            common.reset_world()
            ba = build(script, perm_seed=sched.get('perm_seed'))
            pyrtl.set_working_block(ba.block, no_sanity_check=True)
            try:
                t0 = io.StringIO()
                pyrtl.output_to_verilog(t0, add_reset=case['add_reset'], block=ba.block)
                ba.wires[victim].name = newname
                ta = io.StringIO()
                pyrtl.output_to_verilog(ta, add_reset=case['add_reset'], block=ba.block)
                # history B: the renamed design built and exported in one go
                common.install_hash_seam(sched.get('hash_seed'))
                common.reset_world()
                bb2 = build(script2, perm_seed=sched.get('perm_seed'))
                pyrtl.set_working_block(bb2.block, no_sanity_check=True)
                tb2 = io.StringIO()
                pyrtl.output_to_verilog(tb2, add_reset=case['add_reset'], block=bb2.block)
            except pyrtl.PyrtlError:
                res.probes.hit('rename_history_refused')
            else:
                res.faults.hit('export_rename_export')
                if ta.getvalue() != tb2.getvalue():
                    return Violation('determinism', 'text_depends_on_earlier_exports',
                                     {'renamed': [victim, newname],
                                      'diff': first_diff(tb2.getvalue(), ta.getvalue())},
                                     ['history:export_rename_export'] + ntags)
    # ---- (b) passes under the K schedules ---------------------------------------------------
    if case.get('passes') and _small_enough(script):
        for k, sc in enumerate(case['scheds'][:3]):
            common.install_hash_seam(sc['hash_seed'])
            common.reset_world()
            bb = build(script, perm_seed=sc['perm_seed'], noise=sc['noise'])
            try:
                syn = pyrtl.synthesize(update_working_block=False, block=bb.block)
                regs_before = sorted(w.name for w in syn.wirevector_subset(pyrtl.Register))
                with transforms.quiet():
                    pyrtl.optimize(block=syn)
                regs_after = sorted(w.name for w in syn.wirevector_subset(pyrtl.Register))
            except (pyrtl.PyrtlError, pyrtl.PyrtlInternalError) as e:
                return Violation('passes', 'raise_under_schedule', {'schedule': k, 'exc': repr(e)[:200]}, [])
            nl2, _l = transforms.block_netlist(syn)
            if sorted(nl2.registers()) and any(w.get('rv') for w in script['wires'] if w['k'] == 'R'):
                pass
            rows, n, _ = transforms.ref_trace(nl2, {}, tape[:n_ok], outs)
            d = transforms.compare_rows(exp_rows, rows, outs, min(n, n_ok))
            if regs_before != regs_after:
                # optimize eliminated a constant register: C04's sanctioned difference applies
                res.probes.hit('pass_clause_skipped_const_register')
                continue
            if d:
                return Violation('passes', 'behaviour_differs_under_schedule',
                                 {'schedule': k, 'output': d[1], 'cycle': d[0]}, [])
            res.probes.hit('pass_schedules')
    sim = None
    res.shape = hashlib.sha1(script_shape(script).encode()).hexdigest()[:12]
    res.sched = hashlib.sha1(repr(case['scheds']).encode()).hexdigest()[:12]
    for t in ntags:
        res.probes.hit(t)
    res.nontrivial = True
    return None


def _small_enough(script):
    wd = {w['n']: w['w'] for w in script['wires']}
    for n in script['nets']:
        if n['op'] == '*' and wd[n['a'][0]] > 6:
            return False
        if n['op'] in '+-<>=' and wd[n['a'][0]] > 24:
            return False
    return max(wd.values()) <= 64


def _const_regs(script):
    """A register with a constant next value may be eliminated by optimize (C04's sanctioned
    difference): the pass clause is then not judged."""
    kinds = {w['n']: w['k'] for w in script['wires']}
    return any(n['op'] == 'r' and kinds[n['a'][0]] == 'C' for n in script['nets'])


def candidates(case):
    if case.get('blif'):
        c = copy.deepcopy(case)
        c['blif'] = None
        yield c
    if len(case['scheds']) > 2:
        for i in range(len(case['scheds'])):
            c = copy.deepcopy(case)
            del c['scheds'][i]
            yield c
    cyc = case['cycles']
    for k in range(len(cyc) - 1, 0, -1):
        c = copy.deepcopy(case)
        c['cycles'] = cyc[:k]
        yield c
    if case.get('passes'):
        c = copy.deepcopy(case)
        c['passes'] = False
        yield c
    if case.get('subprocess'):
        c = copy.deepcopy(case)
        c['subprocess'] = None
        yield c
    if case['kind'] != 'sim':
        c = copy.deepcopy(case)
        c['kind'] = 'sim'
        yield c
    for s in shrink.script_candidates(case['script']):
        c = copy.deepcopy(case)
        c['script'] = s
        c['init'] = shrink.remap_init(case['init'], s)
        c['cycles'] = shrink.remap_cycles(case['cycles'], s)
        s.pop('_memremap', None)
        yield c
    if case['init'].get('regs') or case['init'].get('mems') or case['init'].get('default'):
        c = copy.deepcopy(case)
        c['init'] = {'regs': {}, 'mems': {}, 'default': 0}
        yield c


def sample_of(case):
    return {'kind': case['kind'], 'add_reset': case['add_reset'], 'n_schedules': len(case['scheds']),
            'wire_names': [w['n'] for w in case['script']['wires']][:16],
            'n_nets': len(case['script']['nets']), 'subprocess': case['subprocess'],
            'writer_faults': case['writer_faults'], 'passes': case['passes']}
