"""C02 -- FastSimulation and CompiledSimulation are observably identical to Simulation.

World: one design; real pyrtl.Simulation, FastSimulation and (in a fraction of runs, gcc is
slow) CompiledSimulation on the *same* block object, plus RefSim to attribute a divergence.
Configurations: pre-synthesis (wide widths, limb-boundary classes), synthesized merged /
unmerged, optimized. Schedule: hash seed (emission order of the generated Python/C,
input/output packing, regtmp numbering), statement order, replica interleaving with skew,
batch sizes and stepping API (step / step_multiple / run). Faults: reject_step per replica
(values >= 2^w only: negative inputs are C15's clause).
"""
import copy
import hashlib

from .. import gen, shrink, world, replica, common
from ..common import Violation, HarnessError
from ..netlist import Netlist, script_shape
from ..refsim import RefSim, DoubleWrite

ID = 'C02'
LEVEL = 'exploration'
RUN_TIMEOUT_S = 60.0
MIN_BUDGET = 150

TIERS = {
    'quick': {'runs': 16000, 'classes': 8, 'budget_s': 60},
    'thorough': {'runs': 250000, 'classes': 32, 'budget_s': 1100},
}

CONFIGS = ['pre', 'pre', 'pre', 'synth_merged', 'synth_unmerged', 'optimized']

COMPONENTS = {'real': ['pyrtl.Simulation', 'pyrtl.FastSimulation',
                       'pyrtl.CompiledSimulation (gcc + dlopen, not faulted)',
                       'pyrtl.synthesize / optimize (to produce configurations)'],
              'stub': ['RefSim (attribution only)']}


def gen_case(streams, tier):
    g = streams['gen']
    config = g.choice(CONFIGS)
    if config == 'pre':
        cfg = gen.make_cfg(nets=(3, 20), mem_mid_aw=0.15, rom_holes_prob=0.35,
                           const_bias=g.choice([0.0, 0.0, 0.25, 0.5]), dup_mem_name_prob=0.3)
    else:
        cfg = gen.make_cfg(nets=(2, 10), classes=g.choice([['bit', 'small'], ['small']]),
                           max_mul_width=5, mem_wide_aw=0.0, mem_aw=(1, 4), rom_aw_max=3,
                           regs=(0, 2), mems=(0, 1))
    script = gen.gen_script(g, cfg)
    script, stage = gen.maybe_stage(g, script, 0.2, ['sim', 'fast', 'compiled', 'export', 'analysis', 'optimized_copy', 'copy', 'reset'])
    ncyc = streams['inputs'].randint(1, 10)
    with_compiled = g.random() < (0.3 if tier == 'quick' else 0.4)
    holes = any(m.get('rom') and m['rom'].get('holes') for m in script['mems'])
    if holes:
        with_compiled = False      # CompiledSimulation is not built for ROMs without data
    has_mem = any(not m.get('rom') for m in script['mems'])
    init = gen.gen_init(g, script, allow_default=not (with_compiled and has_mem),
                        mem_misfit=not with_compiled)
    labels = ['sim', 'fast'] + (['compiled'] if with_compiled else [])
    if g.random() < 0.3:
        # a second instance of one simulator class on the same block, stepped in between the
        # others: class-level or module-level state shared by instances would show
        labels.append(g.choice(['sim#2', 'fast#2']))
    f = streams['faults']
    faults = []
    ins = [(w['n'], w['w']) for w in script['wires'] if w['k'] == 'I']
    if ins and config in ('pre', 'synth_merged', 'optimized') and f.random() < 0.4:
        n, w = f.choice(ins)
        faults.append({'kind': 'reject_step', 'at': f.randrange(ncyc), 'wire': n,
                       'value': (1 << w) + f.getrandbits(3) if f.random() < 0.7 else 'missing',
                       'replica': f.choice(labels + [None])})
    case = {
        'prop': ID, 'config': config, 'script': script, 'init': init,
        'cycles': gen.gen_inputs(streams['inputs'], script, ncyc),
        'faults': faults, 'labels': labels,
        'sched': world.gen_sched(streams),
        'state_seed': g.getrandbits(32),
        'stage': stage,
        'prior_default': (1 if not init.get('default') else 0) if g.random() < 0.25 else None,
    }
    one_bit = [w['n'] for w in script['wires'] if w['w'] == 1 and w['k'] in 'WRI']
    case['assert_wire'] = None
    if config == 'pre' and not with_compiled and one_bit and f.random() < 0.25:
        # a planted rtl_assert: when it fires every replica's caller catches it and goes on
        case['assert_wire'] = f.choice(one_bit)
    if config == 'pre' and holes:
        case['cycles'], hole_faults = gen.split_rom_holes(script, init, case['cycles'])
        case['faults'] += hole_faults
        ncyc = len(case['cycles'])
    case['interleave'] = replica.gen_interleaving(
        streams['sched'], labels, ncyc, [x['at'] for x in case['faults']])
    return case


def transform(case, b):
    """Return (Live, tape, init) for the configuration, or None if the pass refuses."""
    import pyrtl
    import random
    config = case['config']
    if config == 'pre':
        return replica.Live.from_built(b), case['cycles'], case['init']
    try:
        if config == 'synth_merged':
            blk = pyrtl.synthesize(update_working_block=False, merge_io_vectors=True, block=b.block)
        elif config == 'synth_unmerged':
            blk = pyrtl.synthesize(update_working_block=False, merge_io_vectors=False,
                                   block=b.block)
        else:
            import io
            import contextlib
            with contextlib.redirect_stdout(io.StringIO()):
                blk = pyrtl.optimize(update_working_block=False, block=b.block)
        blk.sanity_check()
    except (pyrtl.PyrtlError, pyrtl.PyrtlInternalError, KeyError, IndexError):
        return None
    live = replica.Live.from_block(blk)
    # the transformed block is "the design": fresh initial state and inputs by its own names
    rng = random.Random(case['state_seed'])
    regs = {}
    for w in blk.wirevector_subset(pyrtl.Register):
        if rng.random() < 0.5:
            regs[w.name] = gen.rand_val(rng, w.bitwidth)
    mems = {}
    for k in live.ram_keys():
        if rng.random() < 0.6:
            m = live.mems[k]
            mems[k] = {str(rng.randrange(1 << m.addrwidth)): gen.rand_val(rng, m.bitwidth)
                       for _ in range(rng.randint(1, 3))}
    # a default_value that fits the original registers need not fit the transformed design's
    dflt = case['init'].get('default', 0)
    init = {'regs': regs, 'mems': mems, 'default': dflt if dflt <= 1 else 1}
    ins = sorted((w.name, w.bitwidth) for w in blk.wirevector_subset(pyrtl.Input))
    if config == 'synth_unmerged':
        tape = [{n: gen.rand_val(rng, w) for n, w in ins} for _ in case['cycles']]
    else:
        names = {n for n, _w in ins}
        tape = [{k: v for k, v in c.items() if k in names} for c in case['cycles']]
        for c in tape:
            for n, w in ins:
                c.setdefault(n, 0)
    return live, tape, init


def run(case, res):
    import pyrtl
    script = case['script']
    sched = case['sched']
    world.setup_world(sched)
    b = world.build_dut(script, sched, stage=world.stage_with_hook(case.get('stage'), res))
    if case.get('assert_wire') in b.wires and case['config'] == 'pre':
        with pyrtl.set_working_block(b.block, no_sanity_check=True):
            pyrtl.rtl_assert(b.wires[case['assert_wire']], common.PlantedAssertion('planted'),
                             block=b.block)
    t = transform(case, b)
    if t is None:
        res.probes.hit('transform_refused:' + case['config'])
        return None
    live, tape, init = t
    res.probes.hit('config:' + case['config'])
    nl = Netlist.from_block(live.block, live.memkey())
    ref = RefSim(nl, dict(init['regs']),
                 {k: {int(a): v for a, v in d.items()} for k, d in init['mems'].items()},
                 init.get('default', 0))
    if case.get('prior_default') is not None:
        # somebody simulated this very block before, with another default_value
        try:
            earlier = [pyrtl.FastSimulation, pyrtl.Simulation]
            if any(l.startswith('compiled') for l in case['labels']):
                earlier.append(pyrtl.CompiledSimulation)
            for cls in earlier:
                s0 = cls(tracer=pyrtl.SimulationTrace('all', block=live.block), block=live.block,
                         default_value=case['prior_default'])
                s0.step({w.name: 0 for w in live.block.wirevector_subset(pyrtl.Input)})
            res.faults.hit('earlier_instance_with_other_default_value')
        except (pyrtl.PyrtlError, pyrtl.PyrtlInternalError, common.PlantedAssertion):
            res.probes.hit('prior_instance_refused')
    reps = []
    for lab in case['labels']:
        try:
            reps.append(replica.Replica(lab, replica.make_sim(lab.split('#')[0], live, init)))
        except (pyrtl.PyrtlError, pyrtl.PyrtlInternalError) as e:
            return Violation('constructor', 'simulator_refuses_valid_block',
                             {'sim': lab, 'exc': repr(e)[:300]}, [lab, case['config']])
    res.shape = hashlib.sha1((case['config'] + script_shape(script)).encode()).hexdigest()[:12]
    res.sched = hashlib.sha1(repr([case['interleave'], [str(n) for n in reps[0].sim.ordered_nets][:50]]
                                  ).encode()).hexdigest()[:12]
    world.shape_probes(script, res.probes)
    faults = {}
    for f in case['faults']:
        faults.setdefault(f['at'], []).append(f)
    refvals = []
    state = {'dw': None}

    def ref_to(c):
        while len(refvals) <= c and state['dw'] is None:
            try:
                refvals.append(ref.step(tape[len(refvals)]))
            except DoubleWrite:
                state['dw'] = len(refvals)

    common_names = None

    def on_cycle(c):
        ref_to(c)
        if state['dw'] is not None and c >= state['dw']:
            return None
        res.cycles += 1
        base = reps[0]
        for other in reps[1:]:
            names = [n for n in other.traced() if n in base.sim.tracer.trace]
            bad = [n for n in names if base.value(n, c) != other.value(n, c)]
            if bad:
                n = _root_cause(live.block, bad, set(names))
                a, o = base.value(n, c), other.value(n, c)
                r = refvals[c].get(n)
                who = other.label if a == r else ('sim' if o == r else 'both')
                return Violation('trace_equal', 'value_mismatch',
                                 {'wire': n, 'cycle': c, 'sim': a, other.label: o, 'ref': r,
                                  'driver': _driver(live.block, n), 'n_bad': len(bad)},
                                 tags=[other.label, 'wrong:' + who, case['config']]
                                 + _drv_tags(live.block, n) + _fanin_tags(live.block, bad))
            res.probes.hit('wires_compared:' + other.label, len(names))
        return None

    v = replica.run_interleaved(reps, tape, case['interleave'], faults, res, on_cycle)
    fired = sum(getattr(r, 'fired', 0) for r in reps)
    if fired:
        res.faults.hit('assertion_fired_and_caught', fired)
    if v:
        return v
    if state['dw'] is not None:
        res.probes.hit('undefined_double_write')
        res.nontrivial = res.cycles >= 1
        return None
    dv = init.get('default', 0)
    for k in live.ram_keys():
        mem = live.mems[k]
        base = dict(reps[0].sim.inspect_mem(mem))
        for other in reps[1:]:
            got = other.sim.inspect_mem(mem)
            addrs = set(base.keys()) | set(ref.mems[k].keys())
            if other.label != 'compiled':
                addrs |= set(got.keys())
            tags = [other.label, case['config']]
            if mem.addrwidth > 64:
                tags.append('mem_aw>64')
            for a in sorted(addrs):
                try:
                    ov = got[a] if other.label == 'compiled' else got.get(a, dv)
                except Exception as e:
                    return Violation('memory_equal', 'inspect_mem_raises',
                                     {'mem': k, 'addr': a, 'exc': repr(e)[:200]}, tags)
                if ov != base.get(a, dv):
                    return Violation('memory_equal', 'content_mismatch',
                                     {'mem': k, 'addr': a, 'sim': base.get(a, dv),
                                      other.label: ov, 'ref': ref.mems[k].get(a, dv)}, tags)
            res.probes.hit('mem_words_compared', len(addrs))
    for r in reps:
        r.sim = None
    res.nontrivial = res.cycles >= 1
    return None


def _root_cause(block, bad, traced):
    """Among the mismatching wires pick one whose driver's traced arguments all match."""
    badset = set(bad)
    prod = {}
    for net in block.logic:
        for d in net.dests:
            prod[d.name] = net
    for n in sorted(bad):
        net = prod.get(n)
        if net is None or net.op == 'r':
            continue
        if all((a.name not in badset) for a in net.args):
            return n
    return sorted(bad)[0]


def _fanin_tags(block, names):
    """Is a read port of a memory with addrwidth > 64 upstream (through registers too) of
    any of the mismatching wires?"""
    prod = {}
    for net in block.logic:
        for d in net.dests:
            prod[d.name] = net
    todo = list(names)
    seen = set()
    while todo:
        n = todo.pop()
        if n in seen:
            continue
        seen.add(n)
        net = prod.get(n)
        if net is None:
            continue
        if net.op == 'm' and net.op_param[1].addrwidth > 64:
            return ['fanin:mem_aw>64']
        todo.extend(a.name for a in net.args)
    return []


def _driver(block, name):
    for net in block.logic:
        for d in net.dests:
            if d.name == name:
                return {'op': net.op, 'args': ['%s/%d' % (a.name, a.bitwidth) for a in net.args],
                        'dest_w': d.bitwidth,
                        'p': net.op_param if net.op == 's' else None}
    return None


def _drv_tags(block, name):
    d = _driver(block, name)
    if not d:
        return []
    tags = ['op:' + d['op']]
    aw = [int(a.rsplit('/', 1)[1]) for a in d['args']]
    nat = {'+': lambda: aw[0] + 1, '-': lambda: aw[0] + 1, '*': lambda: 2 * aw[0],
           'c': lambda: sum(aw), 's': lambda: len(d['p']), 'x': lambda: aw[1],
           '<': lambda: 1, '>': lambda: 1, '=': lambda: 1, 'm': lambda: d['dest_w']}
    natural = nat[d['op']]() if d['op'] in nat else aw[0]
    if d['dest_w'] < natural:
        tags.append('truncating_dest')
    if max(aw + [d['dest_w']]) > 64:
        tags.append('wide')
    return tags


def candidates(case):
    cyc = case['cycles']
    for k in range(len(cyc) - 1, 0, -1):
        c = copy.deepcopy(case)
        c['cycles'] = cyc[:k]
        c['faults'] = [f for f in c['faults'] if f['at'] < k]
        c['interleave'] = _flat(c['labels'], k)
        yield c
    if len(case['labels']) > 2:
        for drop in ('compiled', 'fast', 'sim#2', 'fast#2'):
            c = copy.deepcopy(case)
            c['labels'] = [x for x in c['labels'] if x != drop]
            c['interleave'] = _flat(c['labels'], len(cyc))
            c['faults'] = [f for f in c['faults'] if f.get('replica') != drop]
            yield c
    c = copy.deepcopy(case)
    c['interleave'] = _flat(c['labels'], len(cyc))
    if c['interleave'] != case['interleave']:
        yield c
    for i in range(len(case['faults'])):
        c = copy.deepcopy(case)
        del c['faults'][i]
        yield c
    for c in shrink.drop_cycle_variants(case):
        c['interleave'] = _flat(c['labels'], len(c['cycles']))
        yield c
    if case['sched'].get('iter_policy') or case['sched'].get('perm_seed') is not None:
        c = copy.deepcopy(case)
        c['sched'].update({'iter_policy': None, 'perm_seed': None, 'noise': 0})
        yield c
    for s in shrink.script_candidates(case['script']):
        c = copy.deepcopy(case)
        c['script'] = s
        c['init'] = shrink.remap_init(case['init'], s)
        c['cycles'] = shrink.remap_cycles(case['cycles'], s)
        ins = {w['n'] for w in s['wires'] if w['k'] == 'I'}
        c['faults'] = [f for f in c['faults'] if f['wire'] in ins]
        s.pop('_memremap', None)
        yield c
    if case['init'].get('regs') or case['init'].get('mems') or case['init'].get('default'):
        c = copy.deepcopy(case)
        c['init'] = {'regs': {}, 'mems': {}, 'default': 0}
        yield c
    for t in shrink.simplify_values(case['cycles']):
        c = copy.deepcopy(case)
        c['cycles'] = t
        yield c


def _flat(labels, n):
    return [[i, n, 'step'] for i in range(len(labels))]


def sample_of(case):
    return {'config': case['config'], 'labels': case['labels'],
            'nets': [[n['op'], n['a'], n['d']] for n in case['script']['nets'][:10]],
            'n_nets': len(case['script']['nets']), 'cycles': case['cycles'][:2],
            'interleave': case['interleave'][:8], 'faults': case['faults']}
