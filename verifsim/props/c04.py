"""C04 -- optimize() and its constituent passes preserve observable behaviour.

World: a block of one of four kinds (word-level, synthesized, nand-lowered, and-inverter-
lowered) seeded with constants, duplicate sub-expressions (same and swapped operands), dead
logic, logic that only feeds a memory write and registers with constant next values; a
sequence of 1..4 passes applied in place. Schedule: hash seed (CSE keeps the first net of a
list built in set order; const-prop's fix-point and the dead-logic closure visit sets),
statement permutation. Fault: pass_failure only in the sense that an unsilenced
constant_propagation may legitimately refuse a word-level block (accepted as a refusal).
Oracle after every pass: Inputs/Outputs unchanged, sanity_check passes, Output traces of
RefSim(before) == RefSim(after) from the same initial state, with the sanctioned difference
implemented exactly: registers the pass eliminated start out holding their constant.
"""
import copy
import hashlib

from .. import gen, shrink, world, transforms, common
from ..common import Violation, HarnessError, mask
from ..netlist import Netlist, script_shape
from ..refsim import RefSim, DoubleWrite

ID = 'C04'
LEVEL = 'exploration'
RUN_TIMEOUT_S = 90.0
MIN_BUDGET = 200

TIERS = {
    'quick': {'runs': 40000, 'classes': 8, 'budget_s': 60},
    'thorough': {'runs': 900000, 'classes': 32, 'budget_s': 1100},
}

PASSES = ['optimize', 'optimize', 'optimize_nonupdating', 'constant_propagation', 'constant_propagation_loud',
          'common_subexp_elimination', 'remove_wire_nets', 'remove_slice_nets',
          'remove_unlistened_nets']
KINDS = ['word', 'word', 'synth', 'nand', 'aig']

COMPONENTS = {'real': ['pyrtl.optimize', 'passes.constant_propagation',
                       'passes.common_subexp_elimination', '_remove_wire_nets',
                       '_remove_slice_nets', '_remove_unlistened_nets',
                       'synthesize/nand_synth/and_inverter_synth (to produce block kinds)'],
              'stub': ['RefSim before and after each pass']}


def gen_case(streams, tier):
    g = streams['gen']
    kind = g.choice(KINDS)
    if kind == 'word':
        cfg = gen.make_cfg(nets=(3, 16), class_pool=['bit', 'small', 'mid', 'w64'],
                           dup_prob=0.25, dead_frac=0.3, const_reg_prob=0.3, const_bias=0.25,
                           computed_const_prob=0.5, dup_mem_name_prob=0.3,
                           mem_wide_aw=0.0, consts=(1, 4), regs=(0, 4))
    else:
        cfg = gen.make_cfg(nets=(2, 9), classes=g.choice([['bit', 'small'], ['bit']]),
                           max_mul_width=4, dup_prob=0.25, dead_frac=0.3, const_reg_prob=0.3,
                           const_bias=0.3, mem_wide_aw=0.0, mem_aw=(1, 3), rom_aw_max=3,
                           consts=(1, 4), regs=(0, 3), mems=(0, 2), max_concat=16, dup_mem_name_prob=0.3)
    script = gen.gen_script(g, cfg)
    ncyc = streams['inputs'].randint(2, 8)
    seq = [g.choice(PASSES) for _ in range(g.choice([1, 1, 2, 3, 4]))]
    stage = None
    if kind == 'word' and g.random() < 0.25:
        # optimize(update_working_block=False) is asked for a copy of the design, the design
        # is extended on the same Block, and the passes then run on the design as it is now
        s2, st = gen.add_late_cone(g, script)
        if s2 is not None:
            script, stage = s2, st
            if g.random() < 0.7:
                seq[0] = 'optimize_nonupdating'
    return {
        'prop': ID, 'kind': kind, 'script': script, 'passes': seq,
        'cycles': gen.gen_inputs(streams['inputs'], script, ncyc + 6),
        'ncyc': ncyc,
        'state_seed': g.getrandbits(32),
        'wb': g.choice(['dut', 'other']),
        'stage': stage,
        # the design reaches the passes with its Outputs driven by gates directly (the public
        # direct_connect_outputs pass was run on it first)
        'prep_dco': g.random() < 0.3,
        # optimize() is first called while one net of the design is still missing (refused: a
        # wire is used but not driven yet); the net is then added and the passes run for real
        'early_optimize': g.randrange(1 << 16) if (kind == 'word' and stage is None and g.random() < 0.2) else None,
        'sched': world.gen_sched(streams, with_iter=False),
    }


def make_kind(kind, block):
    import pyrtl
    if kind == 'word':
        return block
    syn = pyrtl.synthesize(update_working_block=False, block=block)
    if kind == 'nand':
        pyrtl.passes.nand_synth(block=syn)
    elif kind == 'aig':
        pyrtl.passes.and_inverter_synth(block=syn)
    return syn


def apply_pass(name, blk):
    """-> 'ok' | 'refused' (legitimate PyrtlError from loud const-prop)."""
    import pyrtl
    from pyrtl import passes
    with transforms.quiet():
        if name == 'optimize_nonupdating':
            r = pyrtl.optimize(update_working_block=False, block=blk)
            if r is blk:
                return 'ok'      # (C11 judges aliasing; here only behaviour counts)
            return ('replaced', r)
        if name == 'optimize':
            r = pyrtl.optimize(update_working_block=True, block=blk)
            if r is not blk:
                raise HarnessError('optimize(update_working_block=True) returned another block')
        elif name == 'constant_propagation':
            passes.constant_propagation(blk, True)
        elif name == 'constant_propagation_loud':
            try:
                passes.constant_propagation(blk, False)
            except pyrtl.PyrtlError as e:
                if 'Unexpected net' in str(e):
                    return 'refused'
                raise
        elif name == 'common_subexp_elimination':
            passes.common_subexp_elimination(block=blk)
        elif name == 'remove_wire_nets':
            passes._remove_wire_nets(blk)
        elif name == 'remove_slice_nets':
            passes._remove_slice_nets(blk)
        elif name == 'remove_unlistened_nets':
            passes._remove_unlistened_nets(blk)
        else:
            raise HarnessError('pass ' + name)
    return 'ok'


def run(case, res):
    import pyrtl
    import random
    script = case['script']
    sched = case['sched']
    world.setup_world(sched)
    stage = None
    if case.get('stage'):
        def early_optimize(built):
            try:
                with transforms.quiet():
                    pyrtl.optimize(update_working_block=False, block=built.block)
                res.faults.hit('optimized_copy_before_extension')
            except (pyrtl.PyrtlError, pyrtl.PyrtlInternalError):
                res.probes.hit('early_optimize_refused')
        stage = dict(case['stage'], hook=early_optimize)
    eo = case.get('early_optimize')
    cands = [i for i, n in enumerate(script['nets']) if n['d']]
    if eo is not None and stage is None and cands:
        import copy as _copy
        script = _copy.deepcopy(script)
        held = script['nets'].pop(cands[eo % len(cands)])
        script['nets'].append(held)

        def early(built):
            try:
                with transforms.quiet():
                    with pyrtl.set_working_block(built.block, no_sanity_check=True):
                        pyrtl.optimize(block=built.block)
            except (pyrtl.PyrtlError, pyrtl.PyrtlInternalError):
                res.faults.hit('optimize_refused_on_the_unfinished_design')
            else:
                raise common.Inconclusive('optimize accepted a design with a net missing')
        stage = {'mems': len(script['mems']), 'wires': len(script['wires']),
                 'nets': len(script['nets']) - 1, 'hook': early}
    b = world.build_dut(script, sched, stage=stage)
    try:
        with transforms.quiet():
            blk = make_kind(case['kind'], b.block)
        if transforms.sanity(blk):
            raise pyrtl.PyrtlError('kind not well formed')
    except (pyrtl.PyrtlError, pyrtl.PyrtlInternalError):
        res.probes.hit('kind_refused:' + case['kind'])
        return None
    if case.get('prep_dco'):
        try:
            with transforms.quiet():
                pyrtl.passes.direct_connect_outputs(blk)
            if transforms.sanity(blk):
                raise pyrtl.PyrtlError('prep')
            res.probes.hit('outputs_driven_by_gates_directly')
        except (pyrtl.PyrtlError, pyrtl.PyrtlInternalError):
            res.probes.hit('prep_refused')
            return None
    other = pyrtl.Block()
    pyrtl.set_working_block(other if case['wb'] == 'other' else blk, no_sanity_check=True)
    res.probes.hit('kind:' + case['kind'])
    rng = random.Random(case['state_seed'])
    tape_all = case['cycles']
    ins0 = transforms.io_signature(blk)
    innames = {n for n, _w in ins0[0]}
    if case['kind'] != 'word':
        tape_all = [{k: v for k, v in c.items() if k in innames} for c in tape_all]
    tags0 = [case['kind']]
    for pi, pname in enumerate(case['passes']):
        nl_a, live_a = transforms.block_netlist(blk)
        regs_a = {n: nl_a.wires[n] for n in nl_a.registers()}
        sig_a = transforms.io_signature(blk)
        wb = pyrtl.working_block()
        try:
            outcome = apply_pass(pname, blk)
        except HarnessError:
            raise
        except Exception as e:
            return Violation('pass', 'raises', {'pass': pname, 'index': pi, 'exc': repr(e)[:400]},
                             tags0 + ['pass:' + pname] + _block_tags(nl_a))
        if isinstance(outcome, tuple):
            blk = outcome[1]            # the pass returned a new block: it is the result
            outcome = 'ok'
        res.log.log('pass', pname, pi, outcome)
        res.faults.hit('pass_refused' if outcome == 'refused' else 'pass_applied')
        res.probes.hit('pass:' + pname)
        tags = tags0 + ['pass:' + pname] + _block_tags(nl_a)
        if pyrtl.working_block() is not wb:
            return Violation('working_block', 'changed_by_in_place_pass', {'pass': pname}, tags)
        s = transforms.sanity(blk)
        if s:
            return Violation('well_formed', 'sanity_check_fails_after_pass',
                             {'pass': pname, 'index': pi, 'exc': s}, tags)
        sig_b = transforms.io_signature(blk)
        if sig_a != sig_b:
            return Violation('io', 'inputs_or_outputs_changed',
                             {'pass': pname, 'before': sig_a, 'after': sig_b}, tags)
        nl_b, live_b = transforms.block_netlist(blk)
        gone = [n for n in regs_a if n not in nl_b.wires or nl_b.wires[n].kind != 'R']
        new_regs = [n for n in nl_b.registers() if n not in regs_a]
        if new_regs:
            return Violation('registers', 'pass_created_registers', {'regs': new_regs[:4]}, tags)
        # the eliminated registers' constants: steady state of the block as given
        pre = len(regs_a) + 1
        regs_init = {n: gen.rand_val(rng, w.width) for n, w in regs_a.items()}
        mems_init = {}
        for k in live_a.ram_keys():
            m = live_a.mems[k]
            mems_init[k] = {str(rng.randrange(1 << m.addrwidth)): gen.rand_val(rng, m.bitwidth)
                            for _ in range(rng.randint(0, 3))}
        if gone:
            res.probes.hit('registers_eliminated', len(gone))
            r0 = RefSim(nl_a, dict(regs_init), {}, 0)
            try:
                for c in range(pre):
                    r0.step(tape_all[c % len(tape_all)])
            except DoubleWrite:
                return None
            for n in gone:
                regs_init[n] = r0.regs[n]
        tape = tape_all[:case['ncyc']]
        init_a = {'regs': regs_init, 'mems': mems_init, 'default': 0}
        init_b = {'regs': {n: v for n, v in regs_init.items() if n not in gone},
                  'mems': mems_init, 'default': 0}
        outs = [n for n, _w in sig_a[1]]
        rows_a, na, _ = transforms.ref_trace(nl_a, init_a, tape, outs)
        rows_b, nb, _ = transforms.ref_trace(nl_b, init_b, tape, outs)
        n = min(na, nb)
        d = transforms.compare_rows(rows_a, rows_b, outs, n)
        if d:
            c, name, va, vb = d
            return Violation('behaviour', 'value_mismatch',
                             {'pass': pname, 'index': pi, 'output': name, 'cycle': c,
                              'before': va, 'after': vb, 'eliminated': gone[:4]}, tags)
        res.cycles += n
    res.shape = hashlib.sha1((case['kind'] + script_shape(script)).encode()).hexdigest()[:12]
    res.sched = hashlib.sha1(repr([case['passes'], sorted(str(x) for x in blk.logic)[:100]]
                                  ).encode()).hexdigest()[:12]
    res.nontrivial = res.cycles > 0
    return None


def _block_tags(nl):
    """Does the block given to the pass contain a net whose destination is narrower than
    its natural width (legal per sanity_check_net; only Block.add_net builds most of them)?"""
    W = nl.wires
    for n in nl.nets:
        if not n.d:
            continue
        aw = [W[x].width for x in n.a]
        dw = W[n.d[0]].width
        op = n.op
        if op in '+-':
            nat = aw[0] + 1
        elif op == '*':
            nat = 2 * aw[0]
        elif op == 'c':
            nat = sum(aw)
        elif op == 's':
            nat = len(n.p)
        elif op in '<>=':
            nat = 1
        elif op == 'x':
            nat = aw[1]
        elif op == 'm':
            nat = dw
        else:
            nat = aw[0]
        if dw < nat:
            return ['has_truncating_dest']
    return ['natural_widths']


def candidates(case):
    for i in range(len(case['passes'])):
        if len(case['passes']) > 1:
            c = copy.deepcopy(case)
            del c['passes'][i]
            yield c
    if case['ncyc'] > 1:
        for k in range(1, case['ncyc']):
            c = copy.deepcopy(case)
            c['ncyc'] = k
            yield c
    if case['sched'].get('perm_seed') is not None:
        c = copy.deepcopy(case)
        c['sched'].update({'perm_seed': None, 'noise': 0})
        yield c
    if case['wb'] != 'dut':
        c = copy.deepcopy(case)
        c['wb'] = 'dut'
        yield c
    for s in shrink.script_candidates(case['script']):
        c = copy.deepcopy(case)
        c['script'] = s
        c['cycles'] = shrink.remap_cycles(case['cycles'], s)
        s.pop('_memremap', None)
        if case.get('stage'):
            c['stage'] = gen.restage(s)
        yield c
    if case.get('stage'):
        c = copy.deepcopy(case)
        c['stage'] = None
        yield c
    for t in shrink.simplify_values(case['cycles'][:case['ncyc']]):
        c = copy.deepcopy(case)
        c['cycles'] = t + case['cycles'][case['ncyc']:]
        yield c


def sample_of(case):
    return {'kind': case['kind'], 'passes': case['passes'], 'n_nets': len(case['script']['nets']),
            'nets': [[n['op'], n['a'], n['d']] for n in case['script']['nets'][:10]],
            'cycles': case['cycles'][:2]}
