"""BlifRef / BenchRef: independent readers and evaluators for the BLIF subset and the ISCAS
.bench format (own line-based readers, not pyparsing). Flip-flop semantics are decoded from
the *cell name* per the Yosys cell library; asynchronous pins are sampled at the clock edge.
"""
import re

from .common import HarnessError


# ---------------------------------------------------------------------------------------
# BLIF
# ---------------------------------------------------------------------------------------

class Model(object):
    def __init__(self, name):
        self.name = name
        self.inputs = []
        self.outputs = []
        self.covers = []     # (input names, output name, [(plane, '1')...])
        self.latches = []    # (D, Q, clk, init)
        self.flops = []      # (cell, {pin: signal})
        self.subckts = []    # (model name, [(formal, actual)...])


def parse_blif(text):
    # join continuation lines, strip comments
    lines = []
    cur = ''
    for raw in text.split('\n'):
        ln = raw.split('#', 1)[0].rstrip()
        if ln.endswith('\\'):
            cur += ln[:-1] + ' '
            continue
        cur += ln
        if cur.strip():
            lines.append(cur.strip())
        cur = ''
    models = []
    m = None
    cover = None
    for ln in lines:
        tok = ln.split()
        if tok[0].startswith('.'):
            cover = None
        if tok[0] == '.model':
            m = Model(tok[1])
            models.append(m)
        elif tok[0] == '.inputs':
            m.inputs.extend(tok[1:])
        elif tok[0] == '.outputs':
            m.outputs.extend(tok[1:])
        elif tok[0] == '.names':
            cover = (tok[1:-1], tok[-1], [])
            m.covers.append(cover)
        elif tok[0] == '.latch':
            d, q = tok[1], tok[2]
            rest = tok[3:]
            init = '0'
            clk = None
            if rest and rest[0] in ('re', 'fe', 'ah', 'al', 'as'):
                clk = rest[1]
                rest = rest[2:]
            if rest:
                init = rest[0]
            m.latches.append((d, q, clk, init))
        elif tok[0] == '.subckt':
            pins = [tuple(x.split('=', 1)) for x in tok[2:]]
            if tok[1].startswith('$_'):
                m.flops.append((tok[1], dict(pins)))
            else:
                m.subckts.append((tok[1], pins))
        elif tok[0] == '.end':
            m = None
        elif tok[0].startswith('.'):
            raise HarnessError('blifref: unsupported command %s' % tok[0])
        else:
            if cover is None:
                raise HarnessError('blifref: cover line outside .names: %r' % ln)
            if len(tok) == 1:
                if cover[0]:
                    raise HarnessError('blifref: malformed cover line %r' % ln)
                cover[2].append(('', tok[0]))
            else:
                cover[2].append((tok[0], tok[1]))
    return models


def decode_flop(cell):
    """-> dict(kind in dff|dffsr|sdff|sdffce, rpol, rval, epol, spol) from a Yosys cell name."""
    c = cell.strip('$_').rstrip('_')
    m = re.match(r'^(DFF|DFFE|DFFSR|DFFSRE|SDFF|SDFFE|SDFFCE)_?([NP01]*)$', c)
    if not m:
        raise HarnessError('blifref: unknown cell %s' % cell)
    typ, p = m.group(1), m.group(2)
    d = {'type': typ, 'rpol': None, 'rval': None, 'epol': None, 'spol': None}
    if p[0] != 'P':
        raise HarnessError('blifref: negative-edge clock unsupported: %s' % cell)
    p = p[1:]
    if typ == 'DFF':
        if p:
            d['rpol'], d['rval'] = p[0], int(p[1])
    elif typ == 'DFFE':
        if len(p) == 1:
            d['epol'] = p[0]
        else:
            d['rpol'], d['rval'], d['epol'] = p[0], int(p[1]), p[2]
    elif typ == 'DFFSR':
        d['spol'], d['rpol'], d['rval'] = p[0], p[1], 0
    elif typ == 'DFFSRE':
        d['spol'], d['rpol'], d['rval'], d['epol'] = p[0], p[1], 0, p[2]
    elif typ == 'SDFF':
        d['rpol'], d['rval'] = p[0], int(p[1])
    elif typ in ('SDFFE', 'SDFFCE'):
        d['rpol'], d['rval'], d['epol'] = p[0], int(p[1]), p[2]
    return d


def flop_next(cell, pins, q):
    """pins: dict D/E/S/R -> 0/1 (absent pins missing)."""
    f = decode_flop(cell)
    d = pins['D']
    act = lambda pol, v: (v == 1) if pol == 'P' else (v == 0)
    en = act(f['epol'], pins['E']) if f['epol'] else True
    rst = act(f['rpol'], pins['R']) if f['rpol'] else False
    st = act(f['spol'], pins['S']) if f['spol'] else False
    typ = f['type']
    if typ == 'SDFFCE':
        if not en:
            return q
        return f['rval'] if rst else d
    # reset has priority over set, both over enable (DFF*, DFFSR*, SDFF, SDFFE)
    if rst:
        return f['rval']
    if st:
        return 1
    return d if en else q


class Instance(object):
    def __init__(self, models, model, clocks, latch_init):
        self.models = models
        self.m = model
        self.clocks = set(clocks)
        self.driver = {}
        for i, (ins, out, rows) in enumerate(model.covers):
            self._drive(out, ('cover', i))
        self.state = {}
        for i, (d, q, clk, init) in enumerate(model.latches):
            self._drive(q, ('latch', i))
            self.state[('latch', i)] = latch_init(init)
        for i, (cell, pins) in enumerate(model.flops):
            self._drive(pins['Q'], ('flop', i))
            self.state[('flop', i)] = 0
        self.children = []
        for i, (mname, pins) in enumerate(model.subckts):
            sub = models[mname]
            sub_clocks = {f for f, a in pins if a in self.clocks}
            child = Instance(models, sub, sub_clocks, latch_init)
            self.children.append(child)
            for f, a in pins:
                if f in sub.outputs:
                    self._drive(a, ('child', i, f))
        # buffers of the clock are clocks too (the importer treats them so)
        changed = True
        while changed:
            changed = False
            for ins, out, rows in model.covers:
                if len(ins) == 1 and rows == [('1', '1')] and ins[0] in self.clocks \
                        and out not in self.clocks:
                    self.clocks.add(out)
                    changed = True

    def _drive(self, sig, what):
        if sig in self.driver:
            raise HarnessError('blifref: %s driven twice in model %s' % (sig, self.m.name))
        self.driver[sig] = what

    def begin(self, get_input):
        self.get_input = get_input
        self.memo = {}
        for i, child in enumerate(self.children):
            actual = {f: a for f, a in self.m.subckts[i][1]}
            child.begin((lambda act: (lambda formal: self.value(act[formal])))(actual))

    def value(self, sig):
        if sig in self.memo:
            return self.memo[sig]
        d = self.driver.get(sig)
        if d is None:
            if sig in self.m.inputs:
                v = self.get_input(sig)
            else:
                raise HarnessError('blifref: undriven signal %s in %s' % (sig, self.m.name))
        elif d[0] == 'cover':
            ins, out, rows = self.m.covers[d[1]]
            v = 0
            for plane, outp in rows:
                if outp != '1':
                    raise HarnessError('blifref: off-set cover')
                if all(ch == '-' or int(ch) == self.value(ins[k]) for k, ch in enumerate(plane)):
                    v = 1
                    break
        elif d[0] in ('latch', 'flop'):
            v = self.state[d[:2]]
        else:
            v = self.children[d[1]].value(d[2])
        self.memo[sig] = v
        return v

    def edge(self):
        nxt = {}
        for i, (d, q, clk, init) in enumerate(self.m.latches):
            nxt[('latch', i)] = self.value(d)
        for i, (cell, pins) in enumerate(self.m.flops):
            pv = {k: self.value(s) for k, s in pins.items() if k in 'DESR'}
            nxt[('flop', i)] = flop_next(cell, pv, self.state[('flop', i)])
        for c in self.children:
            c.edge_collect()
        self._pending = nxt

    def edge_collect(self):
        self.edge()

    def commit(self):
        self.state.update(self._pending)
        for c in self.children:
            c.commit()


class BlifRef(object):
    def __init__(self, text, top=None, clock='clk', latch_choice=None):
        ms = parse_blif(text)
        self.models = {m.name: m for m in ms}
        self.top = self.models[top] if top else ms[0]
        choice = iter(latch_choice or [])

        def latch_init(code):
            if code in ('0', '1'):
                return int(code)
            return next(choice, 0)
        self.inst = Instance(self.models, self.top, {clock}, latch_init)
        self.clock = clock

    def count_free_latches(self):
        n = 0

        def rec(m):
            nonlocal n
            n += sum(1 for l in m.latches if l[3] in ('2', '3'))
            for mname, _p in m.subckts:
                rec(self.models[mname])
        rec(self.top)
        return n

    def step(self, inputs):
        """inputs: {top-level input signal: 0/1}; returns {output signal: 0/1}."""
        self.inst.begin(lambda name: inputs[name])
        outs = {o: self.inst.value(o) for o in self.top.outputs}
        self.inst.edge()
        self.inst.commit()
        return outs


# ---------------------------------------------------------------------------------------
# ISCAS .bench
# ---------------------------------------------------------------------------------------

class BenchRef(object):
    def __init__(self, text):
        self.inputs = []
        self.outputs = []
        self.gates = {}
        self.order = []
        for raw in text.split('\n'):
            ln = raw.split('#', 1)[0].strip()
            if not ln:
                continue
            m = re.match(r'^INPUT\s*\(\s*(\S+?)\s*\)$', ln)
            if m:
                self.inputs.append(m.group(1))
                continue
            m = re.match(r'^OUTPUT\s*\(\s*(\S+?)\s*\)$', ln)
            if m:
                self.outputs.append(m.group(1))
                continue
            m = re.match(r'^(\S+)\s*=\s*([A-Z]+)\s*\((.*)\)$', ln)
            if not m:
                raise HarnessError('benchref: cannot read %r' % ln)
            srcs = [s.strip() for s in m.group(3).split(',')]
            if m.group(1) in self.gates:
                raise HarnessError('benchref: %s defined twice' % m.group(1))
            self.gates[m.group(1)] = (m.group(2), srcs)
            self.order.append(m.group(1))
        self.state = {g: 0 for g, (k, s) in self.gates.items() if k == 'DFF'}

    def step(self, inputs):
        memo = {}

        def val(sig, depth=0):
            if sig in memo:
                return memo[sig]
            if sig in self.gates:
                kind, srcs = self.gates[sig]
                if kind == 'DFF':
                    v = self.state[sig]
                else:
                    if depth > 10000:
                        raise HarnessError('benchref: loop')
                    a = [val(s, depth + 1) for s in srcs]
                    if kind == 'AND':
                        v = int(all(a))
                    elif kind == 'NAND':
                        v = int(not all(a))
                    elif kind == 'OR':
                        v = int(any(a))
                    elif kind == 'NOR':
                        v = int(not any(a))
                    elif kind == 'XOR':
                        v = sum(a) & 1
                    elif kind == 'NOT':
                        v = 1 - a[0]
                    elif kind == 'BUFF':
                        v = a[0]
                    else:
                        raise HarnessError('benchref: gate ' + kind)
            elif sig in inputs:
                v = inputs[sig]
            else:
                raise HarnessError('benchref: undriven %s' % sig)
            memo[sig] = v
            return v
        outs = {o: val(o) for o in self.outputs}
        nxt = {g: val(self.gates[g][1][0]) for g in self.state}
        self.state = nxt
        return outs
