import sys, json, time
sys.path.insert(0,'/verif')
from verifsim import worker, common
from verifsim.common import Streams
pid=sys.argv[1]; N=int(sys.argv[2])
prop = worker.load_prop(pid)
t0=time.time()
n=0; viol=0
from collections import Counter
kinds=Counter()
for i in range(N):
    st = Streams(i)
    case = prop.gen_case(st,'quick')
    try:
        res = worker.run_case(prop, case, getattr(prop,'RUN_TIMEOUT_S',30))
    except Exception as e:
        import traceback; traceback.print_exc(); print('seed',i); break
    n+=1
    if res.violation:
        viol+=1
        v=res.violation
        k=(v.oracle,v.cls,tuple(v.tags))
        if kinds[k]<1: print(i, json.dumps(v.to_json(),default=str)[:700])
        kinds[k]+=1
print(n, viol, time.time()-t0)
for k,v in kinds.items(): print(v,k)
