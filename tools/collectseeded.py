#!/venv/bin/python
"""Copies confirmed seeded changes from /tmp/wt_<ID>/seeded/<n> into /verif/seeded/<ID>-<n>/ and
prints the markdown table for DESIGN.md section 10.6."""
import glob, json, os, shutil, sys
VERIF = os.path.dirname(os.path.dirname(os.path.abspath(__file__)))
rows = []
# confirmed to fail their demo, but they do not break the property as stated (see DESIGN.md)
NOT_KEPT = {('C09', 'r4-2'), ('C11', 'r5-2'), ('C09', 'r6-1'), ('C09', 'r7-1'), ('C08', 'r7-2'),
            ('C18', 'r7-2'), ('C08', 'r8-1'), ('C08', 'r8-2'), ('C18', 'r8-1'), ('C11', 'r8-1'), ('C08', 'r9-1'), ('C11', 'r9-1'), ('C02', 'r10-2'), ('C11', 'r10-1'), ('C11', 'r10-2'),
            ('C08', 'r11-2'),
            ('C11', 'r12-1'), ('C17', 'r12-2'), ('C18', 'r13-1'), ('C11', 'r13-1')}
# filed under the property the sub-agent was given, but the property it breaks is another one
BREAKS = {('C15', 'r5-1'): 'C01', ('C03', 'r6-2'): 'C01', ('C01', 'r9-2'): 'C03', ('C20', 'r9-2'): 'C12',
          ('C04', 'r11-2'): 'C11', ('C20', 'r12-2'): 'C02'}
for d in sorted(glob.glob('/tmp/wt_C*/seeded/*')) + sorted(glob.glob('/tmp/wt2_C*/seeded/*')) + \
        sorted(glob.glob('/tmp/wt3_C*/seeded/*')) + sorted(glob.glob('/tmp/wt4_C*/seeded/*')) + \
        sorted(glob.glob('/tmp/wt5_C*/seeded/*')) + sorted(glob.glob('/tmp/wt6_C*/seeded/*')) + \
        sorted(glob.glob('/tmp/wt7_C*/seeded/*')) + sorted(glob.glob('/tmp/wt8_C*/seeded/*')) + \
        sorted(glob.glob('/tmp/wt9_C*/seeded/*')) + sorted(glob.glob('/tmp/wt10_C*/seeded/*')) + sorted(glob.glob('/tmp/wt11_C*/seeded/*')) + sorted(glob.glob('/tmp/wt12_C*/seeded/*')) + sorted(glob.glob('/tmp/wt13_C*/seeded/*')) + sorted(glob.glob('/tmp/wt14_C*/seeded/*')):
    mp = os.path.join(d, 'meta.json')
    if not os.path.exists(mp):
        continue
    meta = json.load(open(mp))
    c = meta.get('confirmed')
    if not c:
        continue
    top = d.split('/')[2]
    pid = top.replace('wt14_', '').replace('wt13_', '').replace('wt12_', '').replace('wt11_', '').replace('wt10_', '').replace('wt9_', '').replace('wt8_', '').replace('wt7_', '').replace('wt6_', '').replace('wt5_', '').replace('wt4_', '').replace('wt3_', '').replace('wt2_', '').replace('wt_', '')
    n = ('r14-' if top.startswith('wt14_') else 'r13-' if top.startswith('wt13_') else 'r12-' if top.startswith('wt12_') else 'r11-' if top.startswith('wt11_') else 'r2-' if top.startswith('wt2_') else 'r3-' if top.startswith('wt3_') else 'r4-' if top.startswith('wt4_') else 'r5-' if top.startswith('wt5_') else 'r6-' if top.startswith('wt6_') else 'r7-' if top.startswith('wt7_') else 'r8-' if top.startswith('wt8_') else 'r9-' if top.startswith('wt9_') else 'r10-' if top.startswith('wt10_') else '') + os.path.basename(d)
    if (pid, n) in NOT_KEPT:
        continue
    ok = c.get('demo_passes_without') and c.get('patch_applies') and c.get('demo_fails_with') and c.get('tests_pass_with')
    if not ok:
        print('NOT KEPT', d, {k: v for k, v in c.items() if k != 'checks'})
        continue
    dst = os.path.join(VERIF, 'seeded', '%s-%s' % (pid, n))
    os.makedirs(dst, exist_ok=True)
    for fn in ('patch.diff', 'demo.py'):
        shutil.copy(os.path.join(d, fn), os.path.join(dst, fn))
    old = json.load(open(os.path.join(dst, 'meta.json'))) if os.path.exists(os.path.join(dst, 'meta.json')) else {}
    checks = dict(old.get('confirmed', {}).get('checks', {}))
    checks.update(c.get('checks', {}))
    meta['property'] = BREAKS.get((pid, n), pid)
    if (pid, n) in BREAKS:
        meta['note'] = 'produced for %s; what it breaks is %s (see DESIGN.md)' % (pid, BREAKS[(pid, n)])
    meta['confirmed'] = dict(c, checks=checks)
    meta['what_was_run'] = ('tools/tryseeded.py: scratch worktree of /repo HEAD, demo.py without the patch (must pass), '
                            'git apply patch.diff, demo.py (must fail), pinned test suite (1151 must pass), then '
                            './check run <ID> --tier quick with VERIF_REPO pointing at the patched worktree')
    json.dump(meta, open(os.path.join(dst, 'meta.json'), 'w'), indent=1)
    caught = [k for k, v in checks.items() if v.get('caught')]
    rows.append((pid, n, meta.get('summary', '')[:150].replace('|', '/'), ', '.join(caught) or 'none'))
print('| seeded change | what it breaks | caught by (quick tier) |')
print('|---|---|---|')
for pid, n, s, c in rows:
    print('| %s-%s | %s | %s |' % (pid, n, s, c))
