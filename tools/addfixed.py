#!/venv/bin/python
"""tools/addfixed.py <PROP> <commit-ish> <what failed>  -- append a fixed entry"""
import json, subprocess, sys, os
HERE = os.path.dirname(os.path.dirname(os.path.abspath(__file__)))
p = os.path.join(HERE, 'known_findings.json')
d = json.load(open(p))
prop, commit, what = sys.argv[1], sys.argv[2], sys.argv[3]
full = subprocess.run(['git', '-C', '/repo', 'rev-parse', '--short', commit], stdout=subprocess.PIPE).stdout.decode().strip()
d['findings'].append({'property': prop, 'status': 'fixed', 'commit': full, 'what': what,
                      'line': 'fixed: property=%s %s %s' % (prop, full, what)})
json.dump(d, open(p, 'w'), indent=1)
print(d['findings'][-1]['line'])
