#!/venv/bin/python
"""tools/tryseeded.py <seeded-dir> <PROP> [<more PROPs to run>...] [--runs N] [--thorough]

Confirms a seeded change (patch.diff + demo.py + meta.json) in a scratch worktree of /repo
(never in /repo itself: other runs may be using it) and runs the registered check(s) against
it through VERIF_REPO:
  1. demo passes on the unmodified tree; 2. patch applies; 3. the pinned test suite passes
  with it (same pass count as without); 4. demo fails with it; 5. which checks catch it.
Writes the outcome into <seeded-dir>/meta.json under "confirmed" and prints one line.
"""
import json
import os
import shutil
import subprocess
import sys
import tempfile

VERIF = os.path.dirname(os.path.dirname(os.path.abspath(__file__)))
PY = '/venv/bin/python'


def sh(cmd, cwd=None, env=None, timeout=3600):
    p = subprocess.run(cmd, cwd=cwd, env=env, stdout=subprocess.PIPE, stderr=subprocess.STDOUT,
                       timeout=timeout)
    return p.returncode, p.stdout.decode(errors='replace')


def passed_count(out):
    import re
    m = re.search(r'(\d+) passed', out)
    f = re.search(r'(\d+) failed', out)
    return (int(m.group(1)) if m else 0), (int(f.group(1)) if f else 0)


def main(argv):
    d = os.path.abspath(argv[0])
    props = [a for a in argv[1:] if not a.startswith('--') and not a.isdigit()]
    runs = None
    if '--runs' in argv:
        runs = argv[argv.index('--runs') + 1]
    tier = 'thorough' if '--thorough' in argv else 'quick'
    wt = tempfile.mkdtemp(prefix='seedwt_', dir='/dev/shm')
    os.rmdir(wt)
    res = {}
    try:
        rc, out = sh(['git', '-C', '/repo', 'worktree', 'add', '-q', '--detach', wt, 'HEAD'])
        if rc:
            print('worktree failed', out)
            return 2
        env = dict(os.environ, PYTHONPATH=wt, PYTHONDONTWRITEBYTECODE='1')
        env.pop('PYRTL_VERIF', None)
        rc0, out0 = sh([PY, os.path.join(d, 'demo.py')], cwd=wt, env=env, timeout=600)
        res['demo_passes_without'] = rc0 == 0
        rc, out = sh(['git', '-C', wt, 'apply', os.path.join(d, 'patch.diff')])
        res['patch_applies'] = rc == 0
        if rc:
            res['apply_error'] = out[-300:]
        else:
            rc1, out1 = sh([PY, os.path.join(d, 'demo.py')], cwd=wt, env=env, timeout=600)
            res['demo_fails_with'] = rc1 != 0
            rct, outt = sh([PY, '-m', 'pytest', '-q', '-p', 'no:cacheprovider', '--timeout=900',
                            'tests', '--deselect', 'tests/test_examples.py'], cwd=wt, env=env)
            p, f = passed_count(outt)
            res['tests_passed'] = p
            res['tests_failed'] = f
            res['tests_pass_with'] = (f == 0 and p >= 1151)
            caught = {}
            for pid in props:
                e2 = dict(os.environ, VERIF_REPO=wt, VERIF_TIER=tier,
                          VERIF_EVIDENCE_DIR=os.path.join(wt, '_ev'),
                          VERIF_REPLAY_DIR=os.path.join(wt, '_rp'))
                if runs:
                    e2['VERIF_RUNS'] = runs
                rcc, outc = sh([os.path.join(VERIF, 'check'), 'run', pid, '--tier', tier],
                               cwd=VERIF, env=e2, timeout=7200)
                first = [ln.strip() for ln in outc.split('\n') if ln.startswith('  oracle=')][:1]
                caught[pid] = {'rc': rcc, 'caught': rcc == 1, 'first': first[0][:300] if first else None,
                               'summary': outc.split('\n')[0][:200]}
            res['checks'] = caught
    finally:
        sh(['git', '-C', '/repo', 'worktree', 'remove', '--force', wt])
        shutil.rmtree(wt, ignore_errors=True)
    mp = os.path.join(d, 'meta.json')
    meta = json.load(open(mp)) if os.path.exists(mp) else {}
    meta['confirmed'] = res
    json.dump(meta, open(mp, 'w'), indent=1)
    ok = res.get('demo_passes_without') and res.get('patch_applies') and res.get('demo_fails_with') \
        and res.get('tests_pass_with')
    print('%s valid=%s tests=%s/%s caught=%s' % (
        d, bool(ok), res.get('tests_passed'), res.get('tests_failed'),
        {k: v['caught'] for k, v in res.get('checks', {}).items()}))
    return 0


if __name__ == '__main__':
    sys.exit(main(sys.argv[1:]))
