#!/venv/bin/python
"""Regenerates MANIFEST.json from the table below and validates it against the schema."""
import json
import os
import subprocess
import sys

HERE = os.path.dirname(os.path.dirname(os.path.abspath(__file__)))

TECH = 'deterministic simulation with fault injection: '

CHECKS = {
    'C01': dict(
        level='exploration',
        text='Seeded search over simulated worlds: random NET-dialect netlists (all 18 ops, widths '
             '1..200, truncating destinations, registers, multi-port memories, ROMs) stepped in '
             'pyrtl.Simulation against an independent demand-driven reference model, every wire '
             'every cycle, under scheduler-chosen set-iteration orders, statement orders and '
             'Block.__iter__ tie-breaks, with rejected steps and foreign-block activity injected '
             'between cycles. Sampling, not proof.',
        note='Trusted: RefSim (verifsim/refsim.py, written from the LogicNet docstring), the '
             'script->Block builder, PYTHONHASHSEED classes 0..7 (quick) / 0..31 (thorough).',
        technique=TECH + 'seeded schedule (hash order, statement order, iteration tie-break) + '
                  'reject_step/foreign_activity faults, per-cycle oracle against a reference model',
        design='5 C01'),
    'C02': dict(
        level='exploration',
        text='Seeded search: the three real simulators run on the same block object (pre-synthesis '
             'with limb-boundary widths, synthesized merged/unmerged, optimized) in '
             'scheduler-chosen interleavings (skew, batch sizes, step / step_multiple / run), every '
             'commonly traced wire compared per cycle index and memories at the end; RefSim '
             'attributes a divergence. Sampling, not proof.',
        note='Trusted: gcc/dlopen run for real and are not faulted; RefSim only attributes. '
             'Known finding: CompiledSimulation with addrwidth > 64 (known_findings.json).',
        technique=TECH + 'replica lock-step under seeded interleaving + reject_step faults, '
                  'trace/memory equality oracle',
        design='5 C02'),
    'C15': dict(
        level='exploration',
        text='Seeded histories of legal and rejected steps on each simulator with a step_multiple '
             'twin: inspect vs trace after every step, trace length vs accepted steps, planted '
             'wrong expected_outputs cells vs the parsed report, print_vcd/print_trace parsed '
             'back at the end and, in a third of the worlds, also in the middle of the run, '
             'rtl_assert firing cycle predicted by the reference model, out-of-range inputs '
             '(negative and too large) refused by all three simulators. Sampling, not proof.',
        note='Trusted: the VCD/print_trace/report readers in verifsim/props/c15.py; RefSim for '
             'the assertion cycle.',
        technique=TECH + 'step histories with reject_step and assertion faults at scheduler-chosen '
                  'cycles; channel-agreement oracles over the recorded history',
        design='5 C15'),
    'C03': dict(
        level='exploration',
        text='Seeded search: random word-level designs (all ops, reset values, memories, ROMs) '
             'synthesized under both merge_io_vectors settings, both update_working_block settings '
             'and different working blocks, with set-iteration order and statement order chosen by '
             'the scheduler; structure, map keys (identity with the original objects), RefSim '
             'equivalence from reset and from explicit state, and the unchanged testbench on '
             'pyrtl.Simulation(block=result) are checked per run. Sampling, not proof.',
        note='Trusted: RefSim on both sides; widths limited to 1..8 (rarely to 24) because '
             'synthesis is O(n^2) nets.',
        technique=TECH + 'seeded pass-visit order (hash seam) and working-block state; replica '
                  '(synthesized) vs original over cycles against a reference model',
        design='5 C03'),
    'C04': dict(
        level='exploration',
        text='Seeded search: blocks of four kinds (word-level, synthesized, nand, and-inverter) '
             'seeded with constants, duplicate and swapped sub-expressions, dead logic and '
             'constant-fed registers; sequences of 1..4 optimisation passes applied in place under '
             'scheduler-chosen set orders; after every pass I/O sets, sanity_check and RefSim '
             'Output equivalence (eliminated registers start at their constant) are checked. '
             'Sampling, not proof.',
        note='Trusted: RefSim; the eliminated-register constant is read off a pre-run of the block '
             'as given; an unsilenced constant_propagation refusing word-level ops is a refusal.',
        technique=TECH + 'seeded visit order of set-based passes, pass-sequence histories, '
                  'before/after reference-model equivalence',
        design='5 C04'),
    'C09': dict(
        level='exploration',
        text='Seeded search: sequences of 1..4 lowering/restructuring passes on word-level and '
             'post-synthesis blocks (Outputs fed by registers, memories, Inputs, Consts; repeated '
             'select indices; 1..5-way concats; one wire in several argument positions) under '
             'scheduler-chosen set orders; after every pass sanity_check, I/O, register set, '
             'RefSim equivalence and the stated postcondition are checked. Sampling, not proof.',
        note='Trusted: RefSim and the postcondition checkers; direct_connect_outputs is held to '
             'its docstring contract evaluated on the block as given.',
        technique=TECH + 'seeded net_transform visit order, pass-ordering histories, '
                  'reference-model equivalence + postcondition oracle',
        design='5 C09'),
    'C11': dict(
        level='exploration',
        text='Seeded stateful sessions over a pool of blocks: copy_block / synthesize / optimize '
             'with update_working_block=False interleaved with edits (logic, renames, memory read '
             'ports), simulations, foreign activity and refused passes, with the working block '
             'chosen by the scheduler; after every operation fingerprints of all other blocks, '
             'working-block identity, object disjointness of result and source, and RefSim '
             'behaviour of every block from reset are checked. Sampling, not proof.',
        note='Trusted: structural fingerprint (names, types, widths, const values, reset values, '
             'memory attributes, ROM words), RefSim. optimize results that eliminated a register '
             'are exempt from the behavioural comparison (C04 sanctioned difference).',
        technique=TECH + 'seeded operation histories (stateful session) with pass_failure and '
                  'foreign_activity faults; invariants after every event',
        design='5 C11'),
    'C10': dict(
        level='fault_enumeration',
        text='For each sampled valid design every applicable site (capped and then sampled per '
             'class for large designs) of 13 structural fault classes is injected into a fresh '
             'build -- through the API where it allows it, directly into Block.logic / '
             'wirevector_set otherwise -- confirmed malformed by an independent validator, and '
             'offered to sanity_check and the simulator constructors, which must raise '
             'PyrtlError/PyrtlInternalError (no other exception type, no hang, no simulator). '
             'Positive half: each design is accepted and iterated under K tie-break schedules x '
             'hash seeds x statement orders, checking each-net-once and producer-before-consumer. '
             'Exhaustive per design over the enumerated sites; designs are sampled.',
        note='Trusted: the independent validator in verifsim/props/c10.py (a site it cannot '
             'confirm is skipped, never judged); per-site 4 s hang budget.',
        technique=TECH + 'structural fault enumeration at every site of sampled designs + seeded '
                  'tie-break schedules through the Block.__iter__ hook',
        design='5 C10'),
    'C07': dict(
        level='exploration',
        text='Seeded sessions of 1..4 conditional_assignment programs (random condition trees, '
             'otherwise anywhere, shared predicates, wire/register/memory targets, defaults=) in '
             'fresh and shared blocks, with user exceptions at statement boundaries and '
             'PyRTL-rejected statements injected; every completed program is simulated over all 16 '
             'predicate valuations or a random tape and each target compared per cycle with a tree '
             'interpreter; conflicts predicted by an independent literal-set rule must be refused '
             'at the offending |=. Sampling, not proof.',
        note='Trusted: the tree interpreter and conflict rule in verifsim/props/c07.py; '
             'pyrtl.Simulation as the observer. An assignment with an empty path condition may be '
             'refused (admissible).',
        technique=TECH + 'histories of elaboration sessions sharing process-global state, with '
                  'elab_exception / rejected-statement faults; per-cycle tree-interpreter oracle',
        design='5 C07'),
    'C08': dict(
        level='exploration',
        text='Seeded histories of per-cycle port operations (biased to read-during-write, '
             'write-after-write, disabled writes, never-written addresses) on one memory '
             'configuration per run, executed by up to five replicas (Simulation, FastSimulation, '
             'CompiledSimulation, Simulation of synthesize+optimize, exported Verilog under VSim) '
             'in a scheduler-chosen interleaving, against a dict model; storage pokes through the '
             'aliasing inspect_mem dict and rejected steps are injected. A fixed covering walk '
             'drives all 4 x 16 (content, operation) pairs of the 2-word x 1-bit memory. Sampling '
             'otherwise.',
        note='Trusted: the dict model, VSim (verifsim/vsim.py) for the Verilog replica. Known '
             'finding: CompiledSimulation with addrwidth > 64.',
        technique=TECH + 'operation histories on replicated memories under seeded interleaving, '
                  'storage_poke / reject_step faults, array-model oracle',
        design='5 C08'),
    'C05': dict(
        level='exploration',
        text='Seeded search: exportable designs (all ops but nand, memories, ROMs, names needing '
             'sanitising, Verilog keywords) exported with each add_reset option; the module text is '
             'executed by an independent Verilog-subset interpreter (VSim) in lock-step with the '
             'reference model from the reset state, reached directly or by an injected synchronous '
             '/ asynchronous reset from garbage, with a second reset at a scheduler-chosen cycle; '
             'the testbench text made from a Simulation / FastSimulation / CompiledSimulation '
             'trace is read back and checked for input replay, register and memory start state, '
             'and replayed end to end on VSim; in part of the worlds another simulator was first '
             'constructed on the same SimulationTrace from another start state and abandoned. '
             'Sampling, not proof.',
        note='Trusted: VSim and the testbench reader (verifsim/vsim.py) -- no external Verilog '
             'tool exists in the sandbox, so agreement is with IEEE 1364-2001 semantics as '
             'implemented there; RefSim. The fault space is thin (schedules, trace source, resets).',
        technique=TECH + 'replica agreement (emitted Verilog under an independent interpreter vs '
                  'reference model) over cycles with injected reset events, seeded name/sort schedule',
        design='5 C05'),
    'C20': dict(
        level='exploration',
        text='Seeded search over schedules: each script is built K times under different hash '
             'seeds, statement orders and allocation noise (hash seam) and, for a fraction of runs '
             'and for every in-process difference, in plain subprocesses under other '
             'PYTHONHASHSEED values with real id() hashing; bytes of Verilog, testbench, VCD, '
             'print_trace and the traces are compared. Read-only: fingerprint and RefSim behaviour '
             'around 14 export / visualisation / analysis calls, with the file object failing on '
             'its k-th write. Passes: synthesize+optimize behaviour under the same schedules. '
             'Sampling, not proof.',
        note='Trusted: hash seam explores the same permutation space as real addresses (every '
             'in-process difference is re-confirmed un-patched before it is reported); RefSim; '
             'fingerprint. Workers themselves run under 8 (quick) / 32 (thorough) PYTHONHASHSEED '
             'classes.',
        technique=TECH + 'seeded schedule search (set-iteration order via hash seam, PYTHONHASHSEED '
                  'processes, allocation noise) with writer_fault crash points; byte-equality and '
                  'before/after oracles',
        design='5 C20'),
    'C12': dict(
        level='exploration',
        text='Seeded search: generated BLIF (1..3 models, general and special-cased covers, '
             'constants, .latch with every init code, all 32 supported flip-flop cells, nested '
             '.subckt, outputs read internally, vector ports; merge_io_vectors both ways; str and '
             'file readers) and ISCAS .bench netlists with commands, models and gate lines emitted '
             'in scheduler-chosen orders, imported and simulated against independent readers / '
             'evaluators (flip-flop semantics decoded from the cell name). Sampling, not proof.',
        note='Trusted: verifsim/blifref.py (BlifRef, BenchRef). Known finding: ISCAS gates with '
             'more than two inputs (pinned by the existing tests, see known_findings.json).',
        technique=TECH + 'seeded command/model reordering schedule of declarative netlist files; '
                  'cycle-by-cycle replica agreement with an independent evaluator',
        design='5 C12'),
    'C18': dict(
        level='exploration',
        text='Seeded histories: AES encrypt/decrypt state machines under scheduler-chosen reset '
             'pulses with fresh operands (in-flight pulses = abort_restart), checked against a '
             'FIPS-197 reference for the operands sampled at the last pulse within 11 cycles, '
             'held afterwards, and round-tripped end to end; prng_lfsr / prng_xoroshiro128 / '
             'csprng_trivium with a seed wire, bitwidths 1..256 and bits_per_cycle 1..64 under '
             'load/req histories (conformant, early = abort_restart, reseeds), each completed '
             'request compared with the next chunk of the published algorithm and ready timing '
             'with the docstrings. Single-cycle AES on FIPS vectors + random blocks counted as '
             'stateless samples. Sampling, not proof.',
        note='Trusted: verifsim/c18_refs.py (AES from FIPS-197 with computed S-box, LFSR, '
             'xoroshiro128+ 55/14/36, bit-serial Trivium anchored on the published vectors); '
             'protocol readings listed under ASSUMPTIONS in the evidence file.',
        technique=TECH + 'protocol histories with abort_restart faults at scheduler-chosen cycles; '
                  'bounded-liveness and exact-stream oracles against reference implementations',
        design='5 C18'),
    'C13': dict(
        level='exploration',
        text='Simulated part: simple_mult / complex_mult (all legal shifts, widths 1..12) driven by '
             'a recorded tape of start pulses, with aborts (a pulse while in flight, usually with '
             'new operands) and operand changes injected at scheduler-chosen cycles; a per-cycle '
             'monitor demands done within len(A)+1 cycles of the last pulse with stable operands, '
             'then product == A*B and done held. Stateless part (declared as such in the evidence): '
             'every combinational adder / multiplier generator with its parameters, widths 1..16 '
             'mixed, exhaustive values when total input bits <= 10, boundary + random beyond, '
             'against Python integers. Sampling, not proof.',
        note='Trusted: Python integer arithmetic; pyrtl.Simulation / FastSimulation as the '
             'executor (C01/C02). Bound len(A)+1 is the property\'s (the docstring says len(A)).',
        technique=TECH + 'pulse-schedule histories with abort_restart faults and bounded-liveness '
                  'monitor for the sequential multipliers; stateless sampling for the rest',
        design='5 C13'),
    'C17': dict(
        level='exploration',
        text='Schedule exploration only (this property has no fault dimension): API-built designs '
             '(reconvergent fan-out, a+a, register loops, memories with write->read paths) are '
             'built K times under different hash seeds and Block.__iter__ tie-break policies; '
             'timing_map / max_length / critical_path / max_freq / paths (all call forms) / '
             'distance / fanout, expressed by names, must equal an independent longest-path and '
             'simple-path computation in every build and agree across builds. Sampling, not proof.',
        note='Trusted: the independent graph computations in verifsim/props/c17.py; max_freq is '
             'checked against the formula in the code (the docstring gives none).',
        technique=TECH + 'seeded schedule search (hash-order seam + iteration tie-break hook) with '
                  'schedule-invariance and graph-definition oracles',
        design='5 C17'),
}

NOT_APPLICABLE = {
    'C06': 'pure function of (operator, widths, values): no state, schedule, history or fault for a '
           'simulator to control; input generation alone is not this technique (DESIGN.md section 2)',
    'C14': 'pure elaboration-time combinational helpers; nothing depends on order, history or '
           'faults (DESIGN.md section 2)',
    'C16': 'integer/string conversion helpers: pure functions of their arguments (DESIGN.md section 2)',
    'C19': 'pure combinational matrix arithmetic over shapes and values (DESIGN.md section 2)',
}

PENDING = ['C02', 'C03', 'C04', 'C05', 'C07', 'C08', 'C09', 'C10', 'C11', 'C12', 'C13', 'C15',
           'C17', 'C18', 'C20']


def main():
    hook_commit = subprocess.run(
        ['git', '-C', '/repo', 'log', '--format=%H', '--grep=^verif hook', '-n', '5'],
        stdout=subprocess.PIPE).stdout.decode().split()
    checks = []
    for pid in sorted(CHECKS):
        c = CHECKS[pid]
        checks.append({
            'property_id': pid,
            'quick_cmd': './check run %s --tier quick' % pid,
            'thorough_cmd': './check run %s --tier thorough' % pid,
            'evidence_file': 'evidence/%s.json' % pid,
            'replay_cmd_template': './check replay {path}',
            'engine': 'verifsim',
            'level_claimed': {'category': c['level'], 'text': c['text'],
                              'design_ref': 'DESIGN.md section ' + c['design']},
            'level_note': c['note'],
            'technique': c['technique'],
        })
    na = [{'property_id': k, 'reason': v} for k, v in sorted(NOT_APPLICABLE.items())]
    for pid in PENDING:
        if pid not in CHECKS:
            na.append({'property_id': pid,
                       'reason': 'applicable (DESIGN.md section 2) but its check is not built yet; '
                                 'not claimed until it is'})
    man = {
        'version': 1,
        'setup_cmd': './check setup',
        'hooks': {
            'guard': 'PYRTL_VERIF',
            'enable': 'PYRTL_VERIF=1 in the environment of every worker (set by ./check); the '
                      'harness then installs the Block.__iter__ tie-break factory through '
                      'pyrtl.core._verif_set_iter_hook; the hash-order seam is applied from outside '
                      '(class attribute assignment) and needs no repo change',
            'baseline_off_cmd': 'cd /repo && env -u PYRTL_VERIF /venv/bin/python -m pytest -ra -q '
                                '-p no:cacheprovider --timeout=900 --continue-on-collection-errors',
            'source_commits': hook_commit,
            'add_only': True,
        },
        'engines': [{
            'name': 'verifsim', 'path': 'verifsim/',
            'serves_properties': sorted(CHECKS),
            'kind_free_text': 'single-process deterministic simulator for PyRTL: seeded scheduler '
                              'owning set-iteration order (hash seam + PYTHONHASHSEED classes), '
                              'iteration tie-breaks, statement order, replica interleaving and '
                              'fault injection; reference models as oracles; ddmin + replay files',
        }],
        'checks': checks,
        'not_applicable': sorted(na, key=lambda x: x['property_id']),
        'notes': 'exit 0 = held on everything explored, 1 = VIOLATION line with replay file, '
                 '2 = HARNESS-ERROR (machinery problem, never a verdict). VERIF_SEED selects the '
                 'seed block; VERIF_TIER or --tier the depth. known_findings.json is read-only '
                 'at run time. Besides the per-property schedules and faults, every check shares '
                 'these history dimensions (DESIGN.md 10.2, 10.9, 10.10): second simulator / '
                 'generator instances on the same objects, designs used (simulated, exported, '
                 'analysed, copied) when half built and then extended on the same Block, and the '
                 'worlds a worker process ran earlier (stored as `preceding` in a replay file when '
                 'the failing world alone does not fail in a fresh interpreter). An exception '
                 'raised inside pyrtl/ by a legal call is a VIOLATION (legal_call), never a '
                 'harness error.',
    }
    path = os.path.join(HERE, 'MANIFEST.json')
    with open(path, 'w') as f:
        json.dump(man, f, indent=1)
        f.write('\n')
    try:
        import jsonschema
        jsonschema.validate(man, json.load(open('/root/.vp/MANIFEST.schema.json')))
        print('MANIFEST.json valid,', len(checks), 'checks')
    except ImportError:
        print('jsonschema unavailable; not validated')


if __name__ == '__main__':
    sys.exit(main())
