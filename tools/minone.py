import sys, json
sys.path.insert(0,'/verif')
from verifsim import worker, shrink
from verifsim.common import Streams
pid=sys.argv[1]; seed=int(sys.argv[2])
prop = worker.load_prop(pid)
case = prop.gen_case(Streams(seed),'quick')
res = worker.run_case(prop, case, 60)
print(res.violation.to_json() if res.violation else None)
small, used = worker.minimise_case(prop, case, res, 300)
r2 = worker.run_case(prop, small, 60)
print(used, json.dumps(r2.violation.to_json())[:500])
s=small.get('script')
print(json.dumps(s['nets'])); print(json.dumps(s['wires'])); print(s['mems'])
print({k:v for k,v in small.items() if k not in ('script','sched')})
