import json,sys,glob
pid=sys.argv[1]
for f in sorted(glob.glob('/verif/replays/%s-*.json'%pid)):
    r=json.load(open(f));c=r['case']
    if 'minimised_from' not in r: continue
    print(f.split('/')[-1], r['oracle'], r['class'], r['tags'], json.dumps(r['detail'])[:400])
    s=c.get('script')
    if s:
        print('  nets', json.dumps(s['nets'])); print('  wires', json.dumps(s['wires'])); 
        if s['mems']: print('  mems', s['mems'])
    print('  ', {k:v for k,v in c.items() if k not in ('script','sched','cycles')}, 'cycles', c.get('cycles', [])[:3])
